import LcdbModel.Props.Consts
import LcdbModel.Props.CodingProps
import LcdbModel.Model.FileName
import LcdbModel.Lemmas.FileName
/-
  C20: file-name grammar of `ldb_parse_filename`.

  `OwnedName s ty n` (LcdbModel/Lemmas/FileName.lean) is the grammar, phrased over `s.toList`:
    "CURRENT" (.current,0) | "LOCK" (.lock,0) | "LOG" | "LOG.old" (.info,0)
    | "MANIFEST-" ds (.desc,n) | ds ".log" (.log,n) | ds ".sst" | ds ".ldb" (.table,n)
    | ds ".dbtmp" (.temp,n)          with `digitsVal ds = some n`
  where `digitsVal ds` is `none` if `ds` is empty, contains a non-digit or has value ≥ 2^64
  and the decimal value otherwise (leading zeros allowed).
-/
namespace Lcdb.C20
open Lcdb

/-! ### 1. grammar -/

/-- Everything that parses is an owned name of the stated type and number. -/
theorem parse_sound {s : String} {ty : FileType} {n : Nat}
    (h : parseFileName s = some (ty, n)) : OwnedName s ty n :=
  parseChars_sound (parseFileName_eq_parseChars s ▸ h)

/-- Every owned name parses to its type and number. -/
theorem parse_complete {s : String} {ty : FileType} {n : Nat}
    (h : OwnedName s ty n) : parseFileName s = some (ty, n) :=
  parseFileName_eq_parseChars s ▸ parseChars_complete h

/-- `parseFileName` accepts exactly the grammar `OwnedName`. -/
theorem parse_grammar (s : String) (ty : FileType) (n : Nat) :
    parseFileName s = some (ty, n) ↔ OwnedName s ty n :=
  ⟨parse_sound, parse_complete⟩

/-- The number of an owned name always fits in a `uint64`. -/
theorem OwnedName.lt {s : String} {ty : FileType} {n : Nat} (h : OwnedName s ty n) :
    n < 2 ^ 64 :=
  OwnedChars.lt h

/-- The grammar is functional: a name has at most one (type, number). -/
theorem OwnedName.unique {s : String} {ty ty' : FileType} {n n' : Nat}
    (h : OwnedName s ty n) (h' : OwnedName s ty' n') : ty = ty' ∧ n = n' := by
  have := (parse_complete h).symm.trans (parse_complete h')
  simpa using this

-- non-vacuity and edge cases of the grammar
example : OwnedName "00012.log" .log 12 := .log "00012".toList 12 (by decide)
example : OwnedName "MANIFEST-000005" .desc 5 := .desc "000005".toList 5 (by decide)
example : parseFileName "CURRENT" = some (.current, 0) := by decide
example : parseFileName "LOCK" = some (.lock, 0) := by decide
example : parseFileName "LOG" = some (.info, 0) := by decide
example : parseFileName "LOG.old" = some (.info, 0) := by decide
example : parseFileName "MANIFEST-" = none := by decide
example : parseFileName "MANIFEST-5x" = none := by decide
example : parseFileName "MANIFEST-5.log" = none := by decide
example : parseFileName "MANIFEST-18446744073709551615" = some (.desc, 2 ^ 64 - 1) := by decide
example : parseFileName "MANIFEST-18446744073709551616" = none := by decide
example : parseFileName "18446744073709551615.log" = some (.log, 2 ^ 64 - 1) := by decide
example : parseFileName "18446744073709551616.log" = none := by decide
example : parseFileName "00012.log" = some (.log, 12) := by decide
example : parseFileName "7.sst" = some (.table, 7) := by decide
example : parseFileName "7.ldb" = some (.table, 7) := by decide
example : parseFileName "7.dbtmp" = some (.temp, 7) := by decide
example : parseFileName ".log" = none := by decide
example : parseFileName "7.logx" = none := by decide
example : parseFileName ":.log" = none := by decide   -- ':' is '9' + 1
example : parseFileName "/.log" = none := by decide   -- '/' is '0' - 1
example : digitsVal "18446744073709551615".toList = some (2 ^ 64 - 1) := by decide
example : digitsVal "18446744073709551616".toList = none := by decide
example : digitsVal [] = none := by decide
example : digitsVal "12a".toList = none := by decide

/-! ### 2. foreign names -/

/-- A name outside the grammar is rejected. -/
theorem parseFileName_none_of_not_owned {s : String}
    (h : ∀ ty n, ¬ OwnedName s ty n) : parseFileName s = none := by
  cases hp : parseFileName s with
  | none => rfl
  | some r => exact absurd (parse_sound (ty := r.1) (n := r.2) hp) (h r.1 r.2)

example : ∀ ty n, ¬ OwnedName "foo.txt" ty n := by
  intro ty n h
  have := parse_complete h
  have hp : parseFileName "foo.txt" = none := by decide
  rw [hp] at this; cases this

/-- A name containing a path separator is never recognised. -/
theorem parse_foreign_untouched {s : String} (h : '/' ∈ s.toList) : parseFileName s = none :=
  parseFileName_none_of_not_owned fun _ _ ho => OwnedChars.slash_not_mem ho h

example : '/' ∈ "sub/000001.log".toList := by decide

/-! ### 3. generated names parse back (`"%06llu"`) -/

theorem makeName_parse_log {n : Nat} (hn : n < 2 ^ 64) :
    parseFileName (fileNumStr n ++ ".log") = some (.log, n) :=
  parse_complete (by
    rw [OwnedName, String.toList_append, fileNumStr_toList]
    exact .log _ _ (digitsVal_fileNumChars hn))

theorem makeName_parse_ldb {n : Nat} (hn : n < 2 ^ 64) :
    parseFileName (fileNumStr n ++ ".ldb") = some (.table, n) :=
  parse_complete (by
    rw [OwnedName, String.toList_append, fileNumStr_toList]
    exact .ldb _ _ (digitsVal_fileNumChars hn))

theorem makeName_parse_sst {n : Nat} (hn : n < 2 ^ 64) :
    parseFileName (fileNumStr n ++ ".sst") = some (.table, n) :=
  parse_complete (by
    rw [OwnedName, String.toList_append, fileNumStr_toList]
    exact .sst _ _ (digitsVal_fileNumChars hn))

theorem makeName_parse_dbtmp {n : Nat} (hn : n < 2 ^ 64) :
    parseFileName (fileNumStr n ++ ".dbtmp") = some (.temp, n) :=
  parse_complete (by
    rw [OwnedName, String.toList_append, fileNumStr_toList]
    exact .temp _ _ (digitsVal_fileNumChars hn))

theorem makeName_parse_manifest {n : Nat} (hn : n < 2 ^ 64) :
    parseFileName ("MANIFEST-" ++ fileNumStr n) = some (.desc, n) :=
  parse_complete (by
    rw [OwnedName, String.toList_append, fileNumStr_toList]
    exact .desc _ _ (digitsVal_fileNumChars hn))

/-- All generated names parse back. -/
theorem makeName_parse {n : Nat} (hn : n < 2 ^ 64) :
    parseFileName (fileNumStr n ++ ".log") = some (.log, n) ∧
    parseFileName (fileNumStr n ++ ".ldb") = some (.table, n) ∧
    parseFileName (fileNumStr n ++ ".sst") = some (.table, n) ∧
    parseFileName (fileNumStr n ++ ".dbtmp") = some (.temp, n) ∧
    parseFileName ("MANIFEST-" ++ fileNumStr n) = some (.desc, n) :=
  ⟨makeName_parse_log hn, makeName_parse_ldb hn, makeName_parse_sst hn,
   makeName_parse_dbtmp hn, makeName_parse_manifest hn⟩

-- `fileNumStr` really is "%06llu"
example : fileNumStr 0 = "000000" := by decide
example : fileNumStr 5 = "000005" := by decide
example : fileNumStr 123456 = "123456" := by decide
example : fileNumStr 1234567 = "1234567" := by decide
example : fileNumStr (2 ^ 64 - 1) = "18446744073709551615" := by decide
example : parseFileName (fileNumStr 42 ++ ".log") = some (.log, 42) := makeName_parse_log (by decide)

end Lcdb.C20
