/-
  Final theorems about whole table files (src/table/format.c `ldb_read_block`,
  src/table/table_builder.c, src/table/table.c, src/table/two_level_iterator.c) over the model
  in LcdbModel/Model/Table.lean.  Vocabulary (`TableWF`, `OnPosT`, `TOpsOk`, `refSeek`,
  `GetResult.visible`, `AlteredOK`) is in LcdbModel/Lemmas/TableDefs.lean.

  a. `readBlock_ok_crc`, `readBlock_total`       a block read with verification carries a matching
                                                 CRC; no read leaves the buffer
  c. `build_wf`                                  the builder's output is a well-formed table, for
                                                 every option combination
  d. `wf_reads`, `table_roundtrip`               readers of ANY well-formed table (any block cuts,
                                                 compression choice, valid separators) agree with a
                                                 cursor / lookup over the entry list
  e. `altered_table_partial`,
     `single_byte_alteration_detected` (C11)     with verify + paranoid an altered table yields the
                                                 original answer or an error
  f. `table_no_fault` (C18)                      open / iterate / get on ARBITRARY bytes never fault
-/
import LcdbModel.Lemmas.TableRead
import LcdbModel.Lemmas.TableSep
import LcdbModel.Lemmas.TableSafety
import LcdbModel.Lemmas.TableCursor
import LcdbModel.Lemmas.TableCursorGet
import LcdbModel.Lemmas.TableBuildC
import LcdbModel.Lemmas.TableAltered
namespace Lcdb.TableProps
open Lcdb

/-! ### a. ldb_read_block -/

/-- A block that `ldb_read_block` hands out with `verify_checksums` lies inside the file and its
    stored (masked) CRC equals the CRC-32C of contents ‖ type byte. -/
theorem readBlock_ok_crc (f : Bytes) (off size : Nat) (c : Bytes)
    (h : readBlock f off size true = .ok c) :
    off + size + blockTrailerSize ≤ f.length ∧
      crcUnmask (BitVec.ofNat 32 (fixedDec (pread f (off + size + 1) 4)))
        = crc32c (pread f off (size + 1)) :=
  Lcdb.readBlock_ok_crc f off size c h

/-- Every byte `ldb_read_block` looks at lies inside the buffer returned by the read (the model's
    bounds-checked accesses never fail), for arbitrary file contents, offset and size. -/
theorem readBlock_total (file : Bytes) (off size : Nat) (verify : Bool) :
    readBlock file off size verify ≠ .error .fault :=
  Lcdb.readBlock_total file off size verify

/-- verification only adds a check -/
theorem readBlock_verify_irrel (f : Bytes) (off size : Nat) (c : Bytes) :
    readBlock f off size true = .ok c → readBlock f off size false = .ok c :=
  Lcdb.readBlock_verify_irrel f off size c

/-- what the builder wrote (either compression outcome) is read back -/
theorem readBlock_written (o : TableOpts) (pre suf raw : Bytes) (v : Bool)
    (hraw : raw.length ≤ Snappy.maxLength) :
    readBlock (pre ++ (writeBlock o pre.length raw).1 ++ suf) (writeBlock o pre.length raw).2.offset
      (writeBlock o pre.length raw).2.size v = .ok raw :=
  Lcdb.readBlock_written o pre suf raw v hraw

/-! ### d. readers of a well-formed table -/

/-- For ANY well-formed table holding `es` — whatever the block cut positions, restart intervals,
    per-block compression choice and (valid) index separators — and for both settings of
    `paranoid_checks` and `verify_checksums`:
    * `ldb_table_open` succeeds;
    * a full scan returns exactly `es`, status ok;
    * after ANY sequence of iterator operations (first/last/next/prev/seek and the seek_ge/gt/le/lt
      helpers, targets of at least 8 bytes) the two-level iterator has not faulted, reports ok and
      stands exactly where the reference cursor over `es` stands; in particular `seek t` lands on
      the first entry `≥ t`;
    * `ldb_table_internal_get` reports ok, hands back nothing but the first entry `≥ ikey` of the
      whole table, and does hand it back whenever that entry has the user key looked up (no filter
      false negative, and seeking ONE data block is enough). -/
theorem wf_reads (o : TableOpts) (file : Bytes) (es : List (Bytes × Bytes))
    (hwf : TableWF o file es) (paranoid verify : Bool) :
    ∃ t, tableOpen o file paranoid = .ok t ∧
      (∀ n, es.length < n →
        tableIterAll t verify n = some { entries := es, status := .ok, complete := true }) ∧
      (∀ ops, TOpsOk ops →
        ∃ it p, (tableIterOps t verify).run ops (tableIterCreate t) = some it ∧
          (cursorOps (ikeyCmp o.cmp) (es.map (·.1))).run ops none = some p ∧
          it.getStatus = .ok ∧ OnPosT es it p) ∧
      (∀ ops target, TOpsOk ops → 8 ≤ target.length →
        ∃ it, (tableIterOps t verify).run (ops ++ [.seek target]) (tableIterCreate t) = some it ∧
          it.getStatus = .ok ∧
          OnPosT es it ((es.map (·.1)).findIdx? (fun k => ikeyCmp o.cmp k target != .lt))) ∧
      (∀ ikey, 8 ≤ ikey.length →
        ∃ g, tableGet t ikey verify = some g ∧ g.status = .ok ∧
          (∀ e, g.found = some e → refSeek o.cmp es ikey = some e) ∧
          (∀ e, refSeek o.cmp es ikey = some e → ikeyUser e.1 = ikeyUser ikey → g.found = some e) ∧
          g.visible ikey = (refSeek o.cmp es ikey).filter (fun e => ikeyUser e.1 == ikeyUser ikey)) := by
  obtain ⟨t, L, _, _, ht, _⟩ := table_open_wf o file es hwf paranoid
  refine ⟨t, ht, ?_, ?_, ?_, ?_⟩
  · intro n hn; exact table_scan o file es hwf t paranoid verify ht n hn
  · intro ops hops; exact table_is_cursor o file es hwf t paranoid verify ht ops hops
  · intro ops target hops h8
    exact table_seek_first_ge o file es hwf t paranoid verify ht ops hops target h8
  · intro ikey hk
    obtain ⟨g, hg, hs, h1, h2⟩ := table_get_spec o file es hwf t paranoid verify ht ikey hk
    obtain ⟨g', hg', _, hv⟩ := table_get_visible o file es hwf t paranoid verify ht ikey hk
    rw [hg] at hg'; cases hg'
    exact ⟨g, hg, hs, h1, h2, hv⟩

/-! ### c. the builder writes well-formed tables -/

/-- `ldb_tablegen_*` on strictly sorted internal keys produces a well-formed table, for every
    block size (incl. 0), restart interval ≥ 1, compression on/off, filter on/off, comparator. -/
theorem build_wf (o : TableOpts) (es : List (Bytes × Bytes)) (hri : 1 ≤ o.restartInterval)
    (hsorted : SortedKeys (ikeyCmp o.cmp) (es.map (·.1)))
    (hsz : ∀ e ∈ es, 8 ≤ e.1.length ∧ e.1.length < 2 ^ 32 ∧ e.2.length < 2 ^ 32)
    (hfile : (tableBuild o es).length < 2 ^ 32) (hraw : tableRawBound es < 2 ^ 31) :
    TableWF o (tableBuild o es) es :=
  Lcdb.build_wf o es hri hsorted hsz hfile hraw

/-- builder then readers: scan, seek and get on a freshly built table agree with the entry list -/
theorem table_roundtrip (o : TableOpts) (es : List (Bytes × Bytes)) (hri : 1 ≤ o.restartInterval)
    (hsorted : SortedKeys (ikeyCmp o.cmp) (es.map (·.1)))
    (hsz : ∀ e ∈ es, 8 ≤ e.1.length ∧ e.1.length < 2 ^ 32 ∧ e.2.length < 2 ^ 32)
    (hfile : (tableBuild o es).length < 2 ^ 32) (hraw : tableRawBound es < 2 ^ 31)
    (paranoid verify : Bool) :
    ∃ t, tableOpen o (tableBuild o es) paranoid = .ok t ∧
      (∀ n, es.length < n →
        tableIterAll t verify n = some { entries := es, status := .ok, complete := true }) ∧
      (∀ ops target, TOpsOk ops → 8 ≤ target.length →
        ∃ it, (tableIterOps t verify).run (ops ++ [.seek target]) (tableIterCreate t) = some it ∧
          it.getStatus = .ok ∧
          OnPosT es it ((es.map (·.1)).findIdx? (fun k => ikeyCmp o.cmp k target != .lt))) ∧
      (∀ ikey, 8 ≤ ikey.length →
        ∃ g, tableGet t ikey verify = some g ∧ g.status = .ok ∧
          g.visible ikey = (refSeek o.cmp es ikey).filter (fun e => ikeyUser e.1 == ikeyUser ikey)) := by
  obtain ⟨t, ht, hscan, _, hseek, hget⟩ :=
    wf_reads o (tableBuild o es) es (build_wf o es hri hsorted hsz hfile hraw) paranoid verify
  refine ⟨t, ht, hscan, hseek, ?_⟩
  intro ikey hk
  obtain ⟨g, hg, hs, _, _, hv⟩ := hget ikey hk
  exact ⟨g, hg, hs, hv⟩

/-- the tool function `decodeTableFile` (open paranoid, scan with verification) gives back the
    entries of any well-formed table whose entry count is within its step budget -/
theorem decodeTableFile_wf (o : TableOpts) (file : Bytes) (es : List (Bytes × Bytes))
    (hwf : TableWF o file es) (hbudget : es.length < file.length * 32 + 64) :
    decodeTableFile o file = .ok es := by
  obtain ⟨t, ht, hscan, _⟩ := wf_reads o file es hwf true true
  unfold decodeTableFile
  rw [ht]
  simp only [hscan _ hbudget]
  rfl

/-! ### e. partial alteration (C11) -/

/-- If `file'` differs from a well-formed table only so that every checksummed block region is
    byte-identical or fails its CRC (`AlteredOK`: no CRC collision, footer handles intact), then
    with `paranoid_checks` and `verify_checksums`: either `ldb_table_open` fails, or every
    iterator operation sequence ends flagged with an error or in exactly the original state,
    every scan reports an error or the original result, and every get reports an error or what the
    caller sees (`visible`) is the original answer. -/
theorem altered_table_partial (o : TableOpts) (file file' : Bytes) (es : List (Bytes × Bytes))
    (hwf : TableWF o file es) (halt : AlteredOK file file') (t' : Table)
    (ht' : tableOpen o file' true = .ok t') :
    ∃ t, tableOpen o file true = .ok t ∧
      (∀ ops, TOpsOk ops → ∀ it', (tableIterOps t' true).run ops (tableIterCreate t') = some it' →
        it'.getStatus ≠ .ok ∨
          ∃ it, (tableIterOps t true).run ops (tableIterCreate t) = some it ∧ it' = it) ∧
      (∀ n r', tableIterAll t' true n = some r' → r'.status ≠ .ok ∨ tableIterAll t true n = some r') ∧
      (∀ ikey, 8 ≤ ikey.length → ∀ g', tableGet t' ikey true = some g' →
        g'.status ≠ .ok ∨ ∃ g, tableGet t ikey true = some g ∧ g'.visible ikey = g.visible ikey) :=
  Lcdb.altered_table_partial o file file' es hwf halt t' ht'

/-- Changing one byte in front of the footer is always covered by `AlteredOK`: every block
    region that held a checksum-valid block either does not contain the byte or no longer
    passes its CRC (`crc_detects_single_byte`; a changed stored CRC no longer matches either). -/
theorem single_byte_alteration_detected (pre suf : Bytes) (x y : UInt8) (hxy : x ≠ y)
    (hfoot : footerSize ≤ suf.length) : AlteredOK (pre ++ x :: suf) (pre ++ y :: suf) :=
  Lcdb.single_byte_alteration_detected pre suf x y hxy hfoot

/-- C11 for single-byte alterations: scanning the altered file with verify + paranoid gives the
    original entries or an error, never a silently different answer. -/
theorem single_byte_scan (o : TableOpts) (pre suf : Bytes) (x y : UInt8) (es : List (Bytes × Bytes))
    (hwf : TableWF o (pre ++ x :: suf) es) (hxy : x ≠ y) (hfoot : footerSize ≤ suf.length)
    (t' : Table) (ht' : tableOpen o (pre ++ y :: suf) true = .ok t') (n : Nat) (hn : es.length < n)
    (r' : ScanResult) (hr : tableIterAll t' true n = some r') :
    r'.status ≠ .ok ∨ r' = { entries := es, status := .ok, complete := true } := by
  obtain ⟨t, ht, _, hscan, _⟩ := altered_table_partial o _ _ es hwf
    (single_byte_alteration_detected pre suf x y hxy hfoot) t' ht'
  rcases hscan n r' hr with h | h
  · exact .inl h
  · right
    have := table_scan o _ es hwf t true true ht n hn
    rw [this] at h
    exact (Option.some.inj h).symm

/-! ### f. no fault on arbitrary bytes (C18) -/

/-- On ARBITRARY file bytes and for both `paranoid_checks` settings: `ldb_table_open` does not
    fault; on the table it returns (if any), with either `verify_checksums` setting, no sequence
    of iterator operations faults (all reads are inside their buffers, comparators only see
    internal keys of at least 8 bytes, every skip loop ends within its fuel), no scan faults and
    no `ldb_table_internal_get` faults. -/
theorem table_no_fault (o : TableOpts) (file : Bytes) (paranoid : Bool) :
    tableOpen o file paranoid ≠ .error .fault ∧
    ∀ t, tableOpen o file paranoid = .ok t → ∀ verify : Bool,
      (∀ ops : List BlockOp, (tableIterOps t verify).run ops (tableIterCreate t) ≠ none) ∧
      (∀ n : Nat, tableIterAll t verify n ≠ none) ∧ (∀ ikey : Bytes, tableGet t ikey verify ≠ none) :=
  Lcdb.table_no_fault o file paranoid

/-- an error status of the table iterator is never cleared by later operations -/
theorem tableIter_status_sticky (t : Table) (verify : Bool) (ops₁ ops₂ : List BlockOp)
    (it₁ it₂ : TwoIter) (h₁ : (tableIterOps t verify).run ops₁ (tableIterCreate t) = some it₁)
    (hs : it₁.getStatus ≠ .ok) (h₂ : (tableIterOps t verify).run ops₂ it₁ = some it₂) :
    it₂.getStatus ≠ .ok := by
  obtain ⟨it, hit, hinv, _⟩ := tableIter_run_ok t verify ops₁
  rw [h₁] at hit; cases hit
  exact tableIter_status_sticky_run t verify ops₂ it₁ it₂ hinv h₂ hs

/-! ### non-vacuity / concrete instances -/

private def exE (u : String) (seq v : Nat) : Bytes × Bytes :=
  (ikeyEnc u.toUTF8.toList seq 1, List.replicate v 7)
private def exEntries : List (Bytes × Bytes) := [exE "aaa" 5 30, exE "aab" 9 40, exE "abc" 3 50, exE "b" 2 10]
/-- Snappy on, bloom filter, two data blocks -/
private def exOpts : TableOpts :=
  { blockSize := 100, restartInterval := 3, compression := true, filterBits := some 10, cmp := .bytewise }
/-- no compression, no filter, one entry per data block -/
private def exOptsPlain : TableOpts :=
  { blockSize := 1, restartInterval := 1, compression := false, filterBits := none, cmp := .bytewise }
private def exSmall : List (Bytes × Bytes) := [exE "a" 2 1, exE "b" 1 2]

/-- the hypotheses of `build_wf` (hence of `wf_reads`, `table_roundtrip`) are satisfiable -/
example : TableWF exOpts (tableBuild exOpts exEntries) exEntries :=
  build_wf exOpts exEntries (by decide) (by unfold SortedKeys; decide +kernel) (by decide +kernel)
    (by decide +kernel) (by decide +kernel)

/-- `TableWF` is decidable; here it is evaluated by the kernel on a two-block table -/
example : TableWF exOptsPlain (tableBuild exOptsPlain exSmall) exSmall := by decide +kernel

/-- ... and it rejects the same file as a table for a different entry list -/
example : ¬ TableWF exOptsPlain (tableBuild exOptsPlain exSmall) exSmall.tail := by decide +kernel

/-- `readBlock_ok_crc` has instances: the first data block of the small table reads back -/
example : ∃ c, readBlock (tableBuild exOptsPlain exSmall) 0 21 true = .ok c := by decide +kernel

/-- the hypotheses of `altered_table_partial` are satisfiable with a really altered file that
    still opens: flip one byte of the first data block (offset 5) of the small table -/
example :
    let file := tableBuild exOptsPlain exSmall
    let file' := file.take 5 ++ (file.getD 5 0 ^^^ 1) :: file.drop 6
    TableWF exOptsPlain file exSmall ∧ AlteredOK file file' ∧ file' ≠ file ∧
      (∃ t', tableOpen exOptsPlain file' true = .ok t') := by
  intro file file'
  have hsplit : file = file.take 5 ++ file.getD 5 0 :: file.drop 6 := by decide +kernel
  refine ⟨by decide +kernel, ?_, by decide +kernel, ?_⟩
  · have h := single_byte_alteration_detected (file.take 5) (file.drop 6) (file.getD 5 0)
      (file.getD 5 0 ^^^ 1) (by decide +kernel) (by decide +kernel)
    rw [← hsplit] at h
    exact h
  · match h : tableOpen exOptsPlain file' true with
    | .ok t' => exact ⟨t', rfl⟩
    | .error e =>
      exfalso
      have : (match tableOpen exOptsPlain file' true with | .ok _ => true | .error _ => false) = true := by
        decide +kernel
      rw [h] at this
      cases this

/-- The footer hypothesis of `altered_table_partial` (`AlteredOK.footer`) cannot be dropped: the
    footer carries no checksum.  Rewriting the index handle of the small table so that it names
    the (checksum-valid, empty) metaindex block gives a file that a paranoid, verifying reader
    opens and scans as an EMPTY table with status ok (known limitation T-F1 of the format;
    the C code behaves the same way: `tmut … s:<footer bytes> 1 1 scan` answers `. ok`). -/
example :
    let file := tableBuild exOptsPlain exSmall
    let file' := file.take 111 ++ footerEncode { metaindex := ⟨53, 8⟩, index := ⟨53, 8⟩ }
    TableWF exOptsPlain file exSmall ∧ file'.length = file.length ∧
      (match tableOpen exOptsPlain file' true with
        | .ok t' =>
          (match tableIterAll t' true 10 with
            | some r => r.entries.isEmpty && r.status == .ok && r.complete
            | none => false)
        | .error _ => false) = true := by
  intro file file'
  exact ⟨by decide +kernel, by decide +kernel, by decide +kernel⟩

end Lcdb.TableProps
