/-
  C04 — write batch wire format: iterate ∘ encode, append, truncation, count check.
-/
import LcdbModel.Props.Consts
import LcdbModel.Props.CodingProps
import LcdbModel.Model.WriteBatch
import LcdbModel.Lemmas.WriteBatch
namespace Lcdb.C04
open Lcdb

/-! ### A1  iterate ∘ encode -/

theorem iterate_encode (seq : Nat) (ops : List BOp) (_hseq : seq < 2 ^ 64)
    (hn : ops.length < 2 ^ 32) (hwf : OpsWF ops) :
    batchIterate (encodeBatch seq ops) = { applied := ops, ok := true } := by
  have hlen := encodeBatch_length seq ops
  have hge := encodeOps_length_ge ops
  rw [batchIterate_eq _ (by omega), encodeBatch_drop12,
    iterateGo_encodeOps_nil ops hwf _ (by omega), batchCount_encodeBatch, Nat.mod_eq_of_lt hn]
  simp

theorem seq_encode (seq : Nat) (ops : List BOp) (hseq : seq < 2 ^ 64) :
    batchSeq (encodeBatch seq ops) = seq := by
  rw [batchSeq_encodeBatch, Nat.mod_eq_of_lt hseq]

theorem count_encode (seq : Nat) (ops : List BOp) (hn : ops.length < 2 ^ 32) :
    batchCount (encodeBatch seq ops) = ops.length := by
  rw [batchCount_encodeBatch, Nat.mod_eq_of_lt hn]

example :
    batchIterate (encodeBatch 7 [.put [1] [2, 3], .del [1], .put [] []])
      = { applied := [.put [1] [2, 3], .del [1], .put [] []], ok := true } :=
  iterate_encode 7 _ (by decide) (by decide) (by
    intro op h
    simp only [List.mem_cons, List.not_mem_nil, or_false] at h
    rcases h with rfl | rfl | rfl <;> simp [OpWF])

/-! ### A2  append -/

/-- ldb_batch_append on two encoded batches is the encoding of the concatenated operation list
    under the destination's sequence (no well-formedness of the operations is needed) -/
theorem append_ops (s1 s2 : Nat) (a b : List BOp) (hn : a.length + b.length < 2 ^ 32) :
    batchAppend (encodeBatch s1 a) (encodeBatch s2 b) = encodeBatch s1 (a ++ b) := by
  unfold batchAppend
  rw [encodeBatch_take8, encodeBatch_drop12, encodeBatch_drop12, batchCount_encodeBatch,
    batchCount_encodeBatch, Nat.mod_eq_of_lt (show a.length < 2 ^ 32 by omega),
    Nat.mod_eq_of_lt (show b.length < 2 ^ 32 by omega), Nat.mod_eq_of_lt hn]
  simp only [encodeBatch, encodeOps_append, List.length_append, List.append_assoc]

/-- iterating the appended batch applies `a ++ b` in order, with count `|a|+|b|` and sequence `s1` -/
theorem iterate_append (s1 s2 : Nat) (a b : List BOp) (hs1 : s1 < 2 ^ 64)
    (hn : a.length + b.length < 2 ^ 32) (ha : OpsWF a) (hb : OpsWF b) :
    batchIterate (batchAppend (encodeBatch s1 a) (encodeBatch s2 b))
        = { applied := a ++ b, ok := true }
      ∧ batchCount (batchAppend (encodeBatch s1 a) (encodeBatch s2 b)) = a.length + b.length
      ∧ batchSeq (batchAppend (encodeBatch s1 a) (encodeBatch s2 b)) = s1 := by
  have hn' : (a ++ b).length < 2 ^ 32 := by rw [List.length_append]; exact hn
  rw [append_ops s1 s2 a b hn]
  exact ⟨iterate_encode s1 (a ++ b) hs1 hn' (ha.append hb),
    by rw [count_encode _ _ hn', List.length_append], seq_encode _ _ hs1⟩

example : batchAppend (encodeBatch 5 [.put [1] [2]]) (encodeBatch 9 [.del [3]])
    = encodeBatch 5 [.put [1] [2], .del [3]] :=
  append_ops 5 9 _ _ (by decide)

/-! ### A3  truncated batches -/

theorem short_rejected (rep : Bytes) (h : rep.length < 12) : (batchIterate rep).ok = false := by
  unfold batchIterate
  rw [if_pos (by simpa [batchHeaderSize] using h)]

/-- common core of `prefix_rejected` / `prefix_applies_prefix` -/
theorem prefix_core (seq : Nat) (ops : List BOp) (hn : ops.length < 2 ^ 32) (hwf : OpsWF ops)
    (n : Nat) (h1 : 12 ≤ n) (h2 : n < (encodeBatch seq ops).length) :
    (batchIterate ((encodeBatch seq ops).take n)).ok = false
      ∧ (batchIterate ((encodeBatch seq ops).take n)).applied <+: ops := by
  have hlen := encodeBatch_length seq ops
  have htl : ((encodeBatch seq ops).take n).length = n := by
    rw [List.length_take]; omega
  rw [batchIterate_eq _ (by omega), htl, List.drop_take, encodeBatch_drop12,
    batchCount_take _ _ h1, count_encode _ _ hn]
  obtain ⟨ops', e1, e2, e3⟩ := iterateGo_take_encodeOps ops hwf (n - 12) (n + 1) [] 0 (by omega)
  refine ⟨?_, by simpa [e1] using e2⟩
  rcases e3 with e3 | e3
  · simp [e3]
  · have : ((iterateGo (n + 1) (List.take (n - 12) (encodeOps ops)) [] 0).2.1 == ops.length)
        = false := by
      rw [beq_eq_false_iff_ne]; omega
    simp [this]

/-- every proper prefix of an encoded batch that still has the 12-byte header is rejected
    (by a short slice, or — when cut on a record boundary — by the count check) -/
theorem prefix_rejected (seq : Nat) (ops : List BOp) (hn : ops.length < 2 ^ 32) (hwf : OpsWF ops)
    (n : Nat) (h1 : 12 ≤ n) (h2 : n < (encodeBatch seq ops).length) :
    (batchIterate ((encodeBatch seq ops).take n)).ok = false :=
  (prefix_core seq ops hn hwf n h1 h2).1

/-- … and the handler calls made before the failure are a prefix of the batch's operations -/
theorem prefix_applies_prefix (seq : Nat) (ops : List BOp) (hn : ops.length < 2 ^ 32)
    (hwf : OpsWF ops) (n : Nat) (h1 : 12 ≤ n) (h2 : n < (encodeBatch seq ops).length) :
    (batchIterate ((encodeBatch seq ops).take n)).applied <+: ops :=
  (prefix_core seq ops hn hwf n h1 h2).2

/-- all proper prefixes, with or without a full header -/
theorem any_prefix_rejected (seq : Nat) (ops : List BOp) (hn : ops.length < 2 ^ 32)
    (hwf : OpsWF ops) (n : Nat) (h2 : n < (encodeBatch seq ops).length) :
    (batchIterate ((encodeBatch seq ops).take n)).ok = false := by
  by_cases h1 : 12 ≤ n
  · exact prefix_rejected seq ops hn hwf n h1 h2
  · exact short_rejected _ (by rw [List.length_take]; omega)

/-- the bytes of a two-record batch (`varintEnc` is defined by well-founded recursion, so concrete
    instances are evaluated with `simp` rather than `decide`) -/
theorem example_bytes : encodeBatch 7 [.put [1] [2], .del [3]]
    = [7, 0, 0, 0, 0, 0, 0, 0,  2, 0, 0, 0,  1, 1, 1, 1, 2,  0, 1, 3] := by
  simp [encodeBatch, encodeOps, encodeOp, sliceEnc, varintEnc_lt, fixedEnc, typeValue, typeDeletion]

/-- cut on a record boundary (after the first of two records): the count check rejects -/
example : batchIterate ((encodeBatch 7 [.put [1] [2], .del [3]]).take 17)
    = { applied := [.put [1] [2]], ok := false } := by rw [example_bytes]; decide

/-- cut inside a record: a slice read fails -/
example : batchIterate ((encodeBatch 7 [.put [1] [2], .del [3]]).take 19)
    = { applied := [.put [1] [2]], ok := false } := by rw [example_bytes]; decide

example : (batchIterate ((encodeBatch 7 [.put [1] [2], .del [3]]).take 17)).ok = false :=
  prefix_rejected 7 _ (by decide) (by
    intro op h
    simp only [List.mem_cons, List.not_mem_nil, or_false] at h
    rcases h with rfl | rfl <;> simp [OpWF]) 17 (by decide) (by rw [example_bytes]; decide)

/-! ### A4  what acceptance implies -/

theorem iterate_total (rep : Bytes) : ∃ r, batchIterate rep = r := ⟨_, rfl⟩

/-- accepted ⇒ the number of handler calls equals the header count -/
theorem iterate_count (rep : Bytes) (h : (batchIterate rep).ok = true) :
    (batchIterate rep).applied.length = batchCount rep := by
  by_cases hl : rep.length < 12
  · rw [short_rejected rep hl] at h; cases h
  · rw [batchIterate_eq rep (by omega)] at h ⊢
    simp only [Bool.and_eq_true, beq_iff_eq] at h
    have := iterateGo_count _ _ _ _ h.1
    simp only [List.length_nil] at this
    show (iterateGo (rep.length + 1) (rep.drop 12) [] 0).1.length = batchCount rep
    omega

/-- acceptance does NOT imply the bytes are the canonical encoding of the applied operations:
    a delete whose key length is the over-long varint `80 00` is accepted -/
theorem iterate_sound_false :
    ¬ ∀ rep : Bytes, (batchIterate rep).ok = true →
        rep.drop 12 = encodeOps (batchIterate rep).applied := by
  intro h
  have hb : batchIterate [0, 0, 0, 0, 0, 0, 0, 0, 1, 0, 0, 0, 0x00, 0x80, 0x00]
      = { applied := [.del []], ok := true } := by decide
  have he : encodeOps [.del []] = [0, 0] := by
    simp [encodeOps, encodeOp, sliceEnc, varintEnc_lt, typeDeletion]
  have := h [0, 0, 0, 0, 0, 0, 0, 0, 1, 0, 0, 0, 0x00, 0x80, 0x00] (by rw [hb])
  rw [hb, he] at this
  revert this
  decide

end Lcdb.C04
