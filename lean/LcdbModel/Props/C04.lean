import LcdbModel.Props.Consts
import LcdbModel.Props.CodingProps
import LcdbModel.Model.WriteBatch
namespace Lcdb.C04
open Lcdb

end Lcdb.C04
