/-
  Property theorems of the buffered writable file (Model/WFile.lean): the user-space buffer between
  `ldb_wfile_append` and write(2) is transparent as long as no write fails, what exactly happens when one does,
  the order of the calls of a sync, "a record is pushed to the OS before the write returns", and the
  atomic replacement of CURRENT.  Every statement quantifies over every script of environment answers.
-/
import LcdbModel.Lemmas.WFile
import LcdbModel.Lemmas.WFileFs
import LcdbModel.Lemmas.WFileAbs
namespace Lcdb.WFile

/-! ### 6. the EINTR / short-write loop -/

/-- `ldb_write`, for every finite script of answers (termination is structural on the script; an exhausted script
    answers every call in full; an infinite stream of EINTR / zero-byte answers is not representable):
    * what reached the descriptor is always a prefix of the request, in order;
    * status OK  ⇒  exactly the requested bytes were transferred;
    * no answer of the script is a failure other than EINTR  ⇒  status OK (any pattern of short writes, zero-byte
      writes and EINTR bursts);
    * a failure status is the errno of the last write(2) call, which is not EINTR;
    * only write(2) calls are issued, the unconsumed answers are a suffix of the script. -/
theorem osWrite_spec (data : Bytes) (s : List WAns) :
    transferred (osWrite data s).ev <+: data ∧
    ((osWrite data s).rc = .ok → transferred (osWrite data s).ev = data) ∧
    ((∀ a ∈ s, a.isFault = false) → (osWrite data s).rc = .ok ∧ transferred (osWrite data s).ev = data) ∧
    (∀ e, (osWrite data s).rc = .err e → e ≠ .eintr ∧ ∃ pre req, (osWrite data s).ev = pre ++ [.writeErr req e]) ∧
    (∀ e ∈ (osWrite data s).ev, e.isWrite = true) ∧ (osWrite data s).rest <:+ s :=
  ⟨osWrite_prefix s data, osWrite_ok s data,
   fun h => ⟨osWrite_nofault s data h, osWrite_ok s data (osWrite_nofault s data h)⟩,
   osWrite_err s data, osWrite_isWrite s data, osWrite_rest_suffix s data⟩

/-- non-vacuity: two 1-byte writes, an EINTR, a zero-byte write, then the rest -/
example : (osWrite [1, 2, 3, 4, 5] [.ok 1, .ok 1, .err .eintr, .ok 0, .half]).rc = .ok ∧
    transferred (osWrite [1, 2, 3, 4, 5] [.ok 1, .ok 1, .err .eintr, .ok 0, .half]).ev = [1, 2, 3, 4, 5] ∧
    (osWrite [1, 2, 3, 4, 5] [.ok 1, .ok 1, .err .eintr, .ok 0, .half]).ev.length = 6 := by decide

/-- a short write followed by ENOSPC: the first two bytes stay in the file, the call fails -/
example : (osWrite [1, 2, 3] [.ok 2, .err .enospc]).rc = .err .enospc ∧
    transferred (osWrite [1, 2, 3] [.ok 2, .err .enospc]).ev = [1, 2] := by decide

/-! ### 1. transparency without faults -/

/-- If no write(2) answer is a failure (any pattern of short writes / EINTR), then after ANY sequence of
    append / flush / sync the bytes transferred to the descriptor followed by the buffer are exactly the
    concatenation of all appended data — order preserved, nothing duplicated, nothing lost — and the buffer
    holds at most `cap` (= LDB_WRITE_BUFFER) bytes. -/
theorem no_fault_transparent (cap : Nat) (m : Bool) (orc : Oracle) (hnf : orc.WNoFault) (ops : List Op) :
    transferred (run cap (RunSt.init m orc) ops).tr ++ (run cap (RunSt.init m orc) ops).f.buf = (ops.map opData).flatten ∧
    (run cap (RunSt.init m orc) ops).f.buf.length ≤ cap := by
  have h := (run_clean_of_wnofault ops (init_inv cap m orc) (init_clean m orc) hnf).1
  unfold Clean at h
  rw [h, run_app]
  exact ⟨by simp [RunSt.init], (run_inv ops (init_inv cap m orc)).buf_le⟩

/-- ... and after a flush the buffer is empty: everything appended is in the file -/
theorem no_fault_after_flush (cap : Nat) (m : Bool) (orc : Oracle) (hnf : orc.WNoFault) (ops : List Op) :
    (run cap (RunSt.init m orc) (ops ++ [.flush])).f.buf = [] ∧
    transferred (run cap (RunSt.init m orc) (ops ++ [.flush])).tr = (ops.map opData).flatten := by
  have h := (no_fault_transparent cap m orc hnf (ops ++ [.flush])).1
  have hb : (run cap (RunSt.init m orc) (ops ++ [.flush])).f.buf = [] := by rw [run_snoc]; rfl
  rw [hb] at h
  exact ⟨hb, by simpa [opData] using h⟩

/-- ... after a sync that returned OK likewise (a sync can fail on the directory or on fsync without any
    write failing: then the data is still in the buffer or in the file, see `no_fault_transparent`) -/
theorem no_fault_after_sync (cap : Nat) (m : Bool) (orc : Oracle) (hnf : orc.WNoFault) (ops : List Op)
    (hok : (run cap (RunSt.init m orc) (ops ++ [.sync])).rcs.getLast? = some .ok) :
    (run cap (RunSt.init m orc) (ops ++ [.sync])).f.buf = [] ∧
    transferred (run cap (RunSt.init m orc) (ops ++ [.sync])).tr = (ops.map opData).flatten := by
  have h := (no_fault_transparent cap m orc hnf (ops ++ [.sync])).1
  have hb : (run cap (RunSt.init m orc) (ops ++ [.sync])).f.buf = [] := by
    rw [run_snoc] at hok ⊢
    simp only [step, List.getLast?_append, List.getLast?_singleton, Option.some_or, Option.some.injEq] at hok
    obtain ⟨D, W, S, _, _, _, _, _, h6⟩ := sync0_shape (run cap (RunSt.init m orc) ops).f (run cap (RunSt.init m orc) ops).orc
    exact (h6 hok).2.2.1
  rw [hb] at h
  exact ⟨hb, by simpa [opData] using h⟩

/-- ... and `ldb_wfile_close` transfers whatever is still buffered before it closes the descriptor -/
theorem no_fault_after_close (cap : Nat) (m : Bool) (orc : Oracle) (hnf : orc.WNoFault) (ops : List Op) :
    let st := run cap (RunSt.init m orc) ops
    (close st.f st.orc).f.buf = [] ∧
    transferred (st.tr ++ (close st.f st.orc).ev) = (ops.map opData).flatten := by
  intro st
  have h := (no_fault_transparent cap m orc hnf ops).1
  have hn := (run_clean_of_wnofault ops (init_inv cap m orc) (init_clean m orc) hnf).2
  refine ⟨rfl, ?_⟩
  rw [transferred_append, close_ev, ← h]
  congr 1
  exact ((flush_facts cap st.f st.orc).nf hn).1 |> fun x => by simpa [flush_buf] using x

/-- non-vacuity (capacity 4): 3 bytes buffered, 3 more force a flush of the full buffer through 1-byte writes and an
    EINTR, a 9-byte append takes the direct-write branch -/
example :
    let st := run 4 (RunSt.init false { w := [.ok 1, .err .eintr, .ok 1, .half] })
      [.append [1, 2, 3], .append [4, 5, 6], .append [7, 8, 9, 10, 11, 12, 13, 14, 15], .sync]
    transferred st.tr = [1, 2, 3, 4, 5, 6, 7, 8, 9, 10, 11, 12, 13, 14, 15] ∧ st.f.buf = [] ∧
    st.rcs = [.ok, .ok, .ok, .ok] ∧ st.tr.length = 8 := by decide

/-! ### 2. what holds under ANY environment -/

/-- Under ANY script of answers (failures included), after any sequence of operations:
    (a) transferred ++ buffer is a SUBLIST of the appended stream: bytes reach the file in append order, none is
        duplicated or invented; a failure only ever removes bytes from the stream;
    (b) as long as every operation so far returned OK, nothing is missing: transferred ++ buffer = appended
        (in particular the file is a prefix of the appended stream);
    (c) the buffer never exceeds its capacity. -/
theorem write_prefix_always (cap : Nat) (m : Bool) (orc : Oracle) (ops : List Op) :
    let st := run cap (RunSt.init m orc) ops
    (transferred st.tr ++ st.f.buf).Sublist st.app ∧
    ((∀ rc ∈ st.rcs, rc = .ok) → transferred st.tr ++ st.f.buf = st.app ∧ transferred st.tr <+: st.app) ∧
    st.f.buf.length ≤ cap ∧ st.app = (ops.map opData).flatten ∧ st.rcs.length = ops.length := by
  intro st
  have hi : Inv cap st := run_inv ops (init_inv cap m orc)
  refine ⟨hi.sub, ?_, hi.buf_le, by simp [st, run_app, RunSt.init], by simp [st, run_rcs_length, RunSt.init]⟩
  intro hok
  have hc := run_clean_of_ok ops (init_inv cap m orc) (init_clean m orc) hok
  exact ⟨hc, clean_prefix hc⟩

/-- The operation that FIRST reports an error still leaves a prefix of the appended stream in the file (what it
    transferred before failing are the next bytes of the stream). -/
theorem first_error_still_prefix (cap : Nat) (m : Bool) (orc : Oracle) (ops : List Op) (op : Op)
    (hok : ∀ rc ∈ (run cap (RunSt.init m orc) ops).rcs, rc = .ok) :
    transferred (run cap (RunSt.init m orc) (ops ++ [op])).tr <+: (run cap (RunSt.init m orc) (ops ++ [op])).app := by
  rw [run_snoc]
  exact step_prefix (run_inv ops (init_inv cap m orc)) (run_clean_of_ok ops (init_inv cap m orc) (init_clean m orc) hok) op

/-- "The failure surfaces as an error status": whenever, after some operation, the file is NOT a prefix of the
    appended stream, an EARLIER operation returned an error.  (The caller must latch that error: see below.) -/
theorem gap_implies_reported_error (cap : Nat) (m : Bool) (orc : Oracle) (ops : List Op) (op : Op)
    (hgap : ¬ transferred (run cap (RunSt.init m orc) (ops ++ [op])).tr <+: (run cap (RunSt.init m orc) (ops ++ [op])).app) :
    ∃ rc ∈ (run cap (RunSt.init m orc) ops).rcs, rc ≠ .ok := by
  apply Classical.byContradiction
  intro hno
  apply hgap
  apply first_error_still_prefix
  intro rc hrc
  apply Classical.byContradiction
  intro hne
  exact hno ⟨rc, hrc, hne⟩

/-- The mechanism behind finding F1: a failed flush DROPS the buffer (`file->pos = 0` even when the write failed),
    so if the caller keeps writing, later data lands directly behind what was transferred before the failure —
    the file is no longer a prefix of the appended stream, and the later operations all return OK.
    Concrete witness (capacity 4): append [1,2]; flush fails with EIO; append [3]; flush succeeds.
    The file holds [3], the appended stream is [1,2,3]. -/
theorem after_failed_flush_gap :
    let st := run 4 (RunSt.init false { w := [.err .eio] }) [.append [1, 2], .flush, .append [3], .flush]
    st.rcs = [.ok, .err .eio, .ok, .ok] ∧ transferred st.tr = [3] ∧ st.app = [1, 2, 3] ∧
    ¬ transferred st.tr <+: st.app := by decide

/-- the same through a short write: one byte of the buffer reaches the file, the rest is dropped, the next record
    follows directly: [1] ++ [3] -/
example :
    let st := run 4 (RunSt.init false { w := [.ok 1, .err .enospc] }) [.append [1, 2], .flush, .append [3], .flush]
    st.rcs = [.ok, .err .enospc, .ok, .ok] ∧ transferred st.tr = [1, 3] ∧ ¬ transferred st.tr <+: st.app := by decide

/-! ### 4. a record is pushed to the OS before the write returns -/

/-- `emit_physical_record` (append header, append payload, flush) returning OK means: everything that was buffered
    before, the header and the payload have been handed to write(2), in this order, and the buffer is empty. -/
theorem emit_record_pushed (cap : Nat) (f : WF) (hf : f.buf.length ≤ cap) (hdr payload : Bytes) (orc : Oracle)
    (hok : (emitPhysicalRecord cap f hdr payload orc).rc = .ok) :
    transferred (emitPhysicalRecord cap f hdr payload orc).ev = f.buf ++ hdr ++ payload ∧
    (emitPhysicalRecord cap f hdr payload orc).f.buf = [] := by
  unfold emitPhysicalRecord at hok ⊢
  have Fa := append0_facts cap f hf hdr orc
  by_cases h1 : (append0 cap f hdr orc).rc = .ok
  · simp only [h1, ne_eq, not_true_eq_false, ↓reduceIte] at hok ⊢
    have Fb := append0_facts cap (append0 cap f hdr orc).f Fa.buf_le payload (append0 cap f hdr orc).orc
    by_cases h2 : (append0 cap (append0 cap f hdr orc).f payload (append0 cap f hdr orc).orc).rc = .ok
    · simp only [h2, not_true_eq_false, ↓reduceIte] at hok ⊢
      have Fc := flush_facts cap (append0 cap (append0 cap f hdr orc).f payload (append0 cap f hdr orc).orc).f
        (append0 cap (append0 cap f hdr orc).f payload (append0 cap f hdr orc).orc).orc
      have e1 := Fa.ok h1
      have e2 := Fb.ok h2
      have e3 := Fc.ok hok
      simp only [flush_buf, List.append_nil] at e3
      refine ⟨?_, rfl⟩
      rw [transferred_append, transferred_append, e3, List.append_assoc, e2, ← List.append_assoc, e1]
    · simp only [h2, not_false_eq_true, ↓reduceIte] at hok
  · simp only [h1, ne_eq, not_false_eq_true, ↓reduceIte] at hok

/-- in a run: if nothing was lost before, after an OK emit the file holds the whole appended stream plus the record -/
theorem emit_record_pushed_run (cap : Nat) (m : Bool) (orc : Oracle) (ops : List Op) (hdr payload : Bytes)
    (hprev : ∀ rc ∈ (run cap (RunSt.init m orc) ops).rcs, rc = .ok) :
    let st := run cap (RunSt.init m orc) ops
    (emitPhysicalRecord cap st.f hdr payload st.orc).rc = .ok →
    transferred (st.tr ++ (emitPhysicalRecord cap st.f hdr payload st.orc).ev) = st.app ++ hdr ++ payload := by
  intro st hok
  have hi : Inv cap st := run_inv ops (init_inv cap m orc)
  have hc : Clean st := run_clean_of_ok ops (init_inv cap m orc) (init_clean m orc) hprev
  unfold Clean at hc
  rw [transferred_append, (emit_record_pushed cap st.f hi.buf_le hdr payload st.orc hok).1, ← hc]
  simp

/-- An append that fits into the free space of the buffer issues no system call and cannot fail.  This is why the
    IGNORED status of the block-trailer append in `ldb_writer_add_record` is harmless as long as every record is
    emitted through `emit_physical_record` (buffer empty afterwards, trailer < 7 bytes) — and only then. -/
theorem append_fits_no_syscall (cap : Nat) (f : WF) (data : Bytes) (orc : Oracle) (h : f.buf.length + data.length ≤ cap) :
    (append0 cap f data orc).ev = [] ∧ (append0 cap f data orc).rc = .ok ∧ (append0 cap f data orc).f.buf = f.buf ++ data := by
  have h1 : min data.length (cap - f.buf.length) = data.length := by omega
  simp [append0, h1]

/-- non-vacuity (capacity 4): header [1,2,3] and payload [4,5] through a short write -/
example : (emitPhysicalRecord 4 { buf := [], manifest := false, fdOpen := true } [1, 2, 3] [4, 5] { w := [.ok 1] }).rc = .ok ∧
    transferred (emitPhysicalRecord 4 { buf := [], manifest := false, fdOpen := true } [1, 2, 3] [4, 5] { w := [.ok 1] }).ev
      = [1, 2, 3, 4, 5] := by decide

/-! ### 3. order of the calls of a sync -/

/-- `ldb_wfile_sync0` issues: the directory part (open / fsync / close of the directory — MANIFEST files only), then
    only write(2) calls, then only fsync calls of the file.  It returns OK only if the directory part returned OK
    (for a MANIFEST), the writes transferred the WHOLE buffer, and the final call is a successful fsync issued after
    every write; the buffer is then empty. -/
theorem sync_order (f : WF) (orc : Oracle) :
    ∃ D W S, (sync0 f orc).ev = D ++ W ++ S ∧
      D = (if f.manifest then (syncDir orc).ev else []) ∧ (∀ e ∈ D, e.isDirEv = true) ∧
      (∀ e ∈ W, e.isWrite = true) ∧ (∀ e ∈ S, ∃ r, e = Sys.fsync false r) ∧ transferred W <+: f.buf ∧
      ((sync0 f orc).rc = .ok →
        (f.manifest = true → (syncDir orc).rc = .ok ∧ Sys.openDir none ∈ D ∧
          ∃ r, Sys.fsync true r ∈ D ∧ (r = none ∨ r = some .ebadf ∨ r = some .einval)) ∧
        transferred W = f.buf ∧ (sync0 f orc).f.buf = [] ∧ ∃ pre, S = pre ++ [Sys.fsync false none]) := by
  obtain ⟨D, W, S, h1, h2, h3, h4, h5, h6⟩ := sync0_shape f orc
  refine ⟨D, W, S, h1, h2, ?_, h3, h4, h5, ?_⟩
  · subst h2
    intro e he
    split at he
    · exact syncDir_isDirEv orc e he
    · simp at he
  · intro hok
    obtain ⟨a, b, c, d⟩ := h6 hok
    refine ⟨fun hm => ?_, b, c, d⟩
    have hd := a hm
    subst h2
    simp only [hm, ↓reduceIte]
    exact ⟨hd, syncDir_ok orc hd⟩

/-- in a run: a sync that returns OK after operations that all returned OK has transferred the whole appended
    stream, and its successful fsync is the last system call — everything appended before is covered by it -/
theorem sync_covers_everything (cap : Nat) (m : Bool) (orc : Oracle) (ops : List Op)
    (hok : ∀ rc ∈ (run cap (RunSt.init m orc) (ops ++ [.sync])).rcs, rc = .ok) :
    let st := run cap (RunSt.init m orc) (ops ++ [.sync])
    transferred st.tr = (ops.map opData).flatten ∧ st.f.buf = [] ∧ ∃ pre, st.tr = pre ++ [Sys.fsync false none] := by
  intro st
  have hc := run_clean_of_ok (ops ++ [.sync]) (init_inv cap m orc) (init_clean m orc) hok
  have hlast : (sync0 (run cap (RunSt.init m orc) ops).f (run cap (RunSt.init m orc) ops).orc).rc = .ok := by
    apply hok
    rw [run_snoc]
    simp [step, applyOp]
  obtain ⟨D, W, S, h1, _, _, _, _, h6⟩ := sync0_shape (run cap (RunSt.init m orc) ops).f (run cap (RunSt.init m orc) ops).orc
  obtain ⟨_, _, hb, pre, hS⟩ := h6 hlast
  have hbuf : st.f.buf = [] := by simp only [st, run_snoc]; exact hb
  unfold Clean at hc
  refine ⟨?_, hbuf, ?_⟩
  · have : transferred st.tr ++ st.f.buf = st.app := hc
    rw [hbuf, List.append_nil] at this
    rw [this]; simp [st, run_app, RunSt.init, opData]
  · refine ⟨(run cap (RunSt.init m orc) ops).tr ++ D ++ W ++ pre, ?_⟩
    simp only [st, run_snoc, step, applyOp, h1, hS, List.append_assoc]

/-! ### 5. CURRENT is replaced atomically -/

/-- `ldb_set_current_file(n)` under EVERY script of answers, started in any directory state `fs0` with no file open
    for writing.  `Fs` interprets the system calls; `synced g` means "the whole current contents of `g` were covered by
    an fsync issued after the last write to it" and travels with a rename.
    (1) In EVERY prefix of the trace (= at every possible crash/kill point) CURRENT is either exactly what it was
        before the call, or it holds the complete pointer `MANIFEST-<n>\n` AND that content had been fsynced in full
        before the rename — never a partial or unsynced CURRENT.
    (2) Status OK ⇔ the successful rename `<n>.dbtmp → CURRENT` was issued; then CURRENT is the new pointer and the
        temp file is gone.
    (3) On any error CURRENT is untouched, the last system call is the unlink of the temp file, and no successful
        rename was issued. -/
theorem setCurrentFile_atomic (cap n : Nat) (orc : Oracle) (fs0 : Fs) (h0 : fs0.cur = none) :
    (∀ p, p <+: (setCurrentFile cap n orc).ev →
      ((Fs.run fs0 p).files .current = fs0.files .current ∧ (Fs.run fs0 p).synced .current = fs0.synced .current) ∨
      ((Fs.run fs0 p).files .current = some (ptrBytes n) ∧ (Fs.run fs0 p).synced .current = true)) ∧
    ((setCurrentFile cap n orc).rc = .ok →
      (Fs.run fs0 (setCurrentFile cap n orc).ev).files .current = some (ptrBytes n) ∧
      (Fs.run fs0 (setCurrentFile cap n orc).ev).synced .current = true ∧
      (Fs.run fs0 (setCurrentFile cap n orc).ev).files (.tmp n) = none ∧
      Sys.rename (.tmp n) .current none ∈ (setCurrentFile cap n orc).ev) ∧
    ((setCurrentFile cap n orc).rc ≠ .ok →
      (Fs.run fs0 (setCurrentFile cap n orc).ev).files .current = fs0.files .current ∧
      (∃ pre x, (setCurrentFile cap n orc).ev = pre ++ [Sys.unlink (.tmp n) x]) ∧
      Sys.rename (.tmp n) .current none ∉ (setCurrentFile cap n orc).ev) :=
  setCurrentFile_atomic_core cap n orc fs0 h0

/-- `ldb_write_file(name, data, should_sync = 1)` returning OK: the file holds exactly `data`, all of it covered by an
    fsync issued after the last write, and the descriptor is closed (for every script of answers) -/
theorem writeFile_synced (cap : Nat) (name : Disk.FName) (data : Bytes) (orc : Oracle)
    (hok : (writeFile cap name data true orc).rc = .ok) (fs : Fs) :
    (Fs.run fs (writeFile cap name data true orc).ev).files name = some data ∧
    (Fs.run fs (writeFile cap name data true orc).ev).synced name = true ∧
    (Fs.run fs (writeFile cap name data true orc).ev).cur = none :=
  writeFile_ok_fs cap name data orc hok fs

def exFs0 : Fs := { files := fun g => if g = .current then some [0x6f, 0x6c, 0x64, 0x0a] else none, synced := fun _ => false, cur := none }

/-- non-vacuity: the contents are `MANIFEST-000005\n`; a run through 3-byte short writes and an EINTR succeeds -/
example : ptrBytes 5 = [77, 65, 78, 73, 70, 69, 83, 84, 45, 48, 48, 48, 48, 48, 53, 10] ∧
    (setCurrentFile writeBuffer 5 { w := [.ok 3, .err .eintr, .ok 3] }).rc = .ok ∧
    (Fs.run exFs0 (setCurrentFile writeBuffer 5 { w := [.ok 3, .err .eintr, .ok 3] }).ev).files .current = some (ptrBytes 5) := by
  decide

/-- non-vacuity: a failing fsync — CURRENT keeps its old contents, the temp file is unlinked (twice: once by
    `ldb_write_file`, once more by `ldb_set_current_file`) -/
example : (setCurrentFile writeBuffer 5 { s := [.err .eio] }).rc = .err .eio ∧
    (Fs.run exFs0 (setCurrentFile writeBuffer 5 { s := [.err .eio] }).ev).files .current = some [0x6f, 0x6c, 0x64, 0x0a] ∧
    (setCurrentFile writeBuffer 5 { s := [.err .eio] }).ev =
      [.openW (.tmp 5) none, .write 16 (ptrBytes 5), .fsync false (some .eio), .close false none,
       .unlink (.tmp 5) none, .unlink (.tmp 5) none] := by
  decide

/-- the abstraction `absGo` to the storage-protocol events (`Lcdb.Disk.Ev`) on a concrete run with short writes:
    create, the write(2) that completes the pointer record, sync, rename, directory sync — exactly the event
    sequence obligation O4 of `Disk.Mon` is stated over.  (Concrete instance only; the general statement
    "every OK run abstracts to this sequence" is not proved.) -/
example : absGo (.tmp 5) (ptrBytes 5) (.ptr 5) [] (setCurrentFile writeBuffer 5 { w := [.ok 3, .err .eintr, .ok 3] }).ev =
    [.create (.tmp 5), .append (.tmp 5) (.ptr 5), .sync (.tmp 5), .rename (.tmp 5) .current, .syncDir] := by
  decide

/-! ### 7. statuses without faults; the bridge to `Disk.Ev` -/

/-- the environment never answers an error: every write(2) answer is a (possibly short, possibly zero-byte) transfer
    or EINTR, and no answer of the other five scripts is an error other than EINTR -/
def Oracle.NoFault (orc : Oracle) : Prop :=
  (∀ a ∈ orc.w, a.isFault = false) ∧ (∀ a ∈ orc.s, a.isFault = false) ∧ (∀ a ∈ orc.o, a.isFault = false) ∧
  (∀ a ∈ orc.c, a.isFault = false) ∧ (∀ a ∈ orc.r, a.isFault = false) ∧ (∀ a ∈ orc.u, a.isFault = false)

/-- Under an oracle that never answers an error, EVERY status returned by any sequence of append / flush / sync is OK
    (whatever the pattern of short writes and EINTR bursts on write, fsync and open). -/
theorem no_fault_all_ok (cap : Nat) (m : Bool) (orc : Oracle) (hnf : Oracle.NoFault orc) (ops : List Op) :
    ∀ rc ∈ (run cap (RunSt.init m orc) ops).rcs, rc = .ok :=
  run_nf_ok cap ops (RunSt.init m orc) (init_inv cap m orc) ⟨hnf.1, hnf.2.1, hnf.2.2.1⟩ (by simp [RunSt.init])

/-- ... and then, with `no_fault_transparent`, after a final sync everything appended is in the file and covered by
    the last system call, a successful fsync -/
theorem no_fault_sync_covers (cap : Nat) (m : Bool) (orc : Oracle) (hnf : Oracle.NoFault orc) (ops : List Op) :
    let st := run cap (RunSt.init m orc) (ops ++ [.sync])
    transferred st.tr = (ops.map opData).flatten ∧ st.f.buf = [] ∧ ∃ pre, st.tr = pre ++ [Sys.fsync false none] :=
  sync_covers_everything cap m orc ops (no_fault_all_ok cap m orc hnf (ops ++ [.sync]))

example : Oracle.NoFault { w := [.ok 1, .err .eintr, .ok 0, .half], s := [.err .eintr, .ok], o := [.err .eintr] } := by
  refine ⟨?_, ?_, ?_, ?_, ?_, ?_⟩ <;> decide

example : (run 4 (RunSt.init true { w := [.ok 1, .err .eintr, .ok 0, .half], s := [.err .eintr, .ok], o := [.err .eintr] })
    [.append [1, 2, 3], .append [4, 5, 6], .sync, .append [7, 8, 9, 10, 11, 12, 13, 14, 15], .flush]).rcs
    = [.ok, .ok, .ok, .ok, .ok] := by decide

/-- **The bridge to the `Disk` model's events.**  For every op sequence `ops`, every oracle and every file name: if
    `ops` followed by a sync all return OK, then the abstraction `absGo` of the system-call trace — with the record
    `r` standing for the bytes appended before that sync, `full = (ops.map opData).flatten` — is

        A ++ [append name r] ++ B ++ [sync name]        (A, B contain only `sync name` / `syncDir` events)

    i.e. on `Disk.Ev`: the record is completed by exactly ONE `append` event (the write(2) after which the file holds
    all of `full`, whatever the pattern of short writes, EINTR, buffer flushes and direct writes, and however the data
    was cut into appends), and the `sync` contributed by the final sync op comes AFTER it: an OK sync covers everything
    appended before it.  Earlier OK syncs of `ops` show up as the `sync` events of `A` (before the record was
    complete) — none of them can follow the `append` except through `B` = syncs issued after completion. -/
theorem ok_run_abstracts_write_then_sync (cap : Nat) (m : Bool) (orc : Oracle) (ops : List Op) (name : Disk.FName)
    (r : Disk.Rec) (hne : (ops.map opData).flatten ≠ [])
    (hok : ∀ rc ∈ (run cap (RunSt.init m orc) (ops ++ [.sync])).rcs, rc = .ok) :
    ∃ A B, absGo name (ops.map opData).flatten r [] (run cap (RunSt.init m orc) (ops ++ [.sync])).tr
        = A ++ [Disk.Ev.append name r] ++ B ++ [Disk.Ev.sync name] ∧ OnlySyncs name A ∧ OnlySyncs name B := by
  obtain ⟨hT, _, pre, hpre⟩ := sync_covers_everything cap m orc ops hok
  have hbody : ∀ e ∈ (run cap (RunSt.init m orc) (ops ++ [.sync])).tr, e.isBody = true :=
    run_tr_isBody cap _ _ (by simp [RunSt.init])
  rw [hpre] at hT hbody ⊢
  have hpb : ∀ e ∈ pre, e.isBody = true := fun e he => hbody e (by simp [he])
  have hTp : transferred pre = (ops.map opData).flatten := by
    simpa [transferred_append, transferred] using hT
  obtain ⟨A, B, e1, e2, e3⟩ := absGo_cross name _ r pre [] hpb (fun h => hne h.symm) (by simpa using hTp)
  refine ⟨A, B, ?_, e2, e3⟩
  rw [absGo_append_body name _ r pre [] _ hpb, e1]
  simp [absGo]

/-- the monitor of `Disk` sees the same thing: on the abstracted trace the record is in the file's body and below its
    fsynced count (the shape `… append … sync` is what obligation O1 for a sync ack asks for) — concrete instance
    (capacity 4): three appends cut differently from the writes, an intermediate sync, short writes and an EINTR -/
example :
    absGo (.log 1) [1, 2, 3, 4, 5, 6, 7] (.batch 9) []
      (run 4 (RunSt.init false { w := [.ok 1, .err .eintr, .ok 1, .half] })
        [.append [1, 2, 3], .sync, .append [4, 5, 6], .append [7], .sync]).tr
      = [.sync (.log 1), .append (.log 1) (.batch 9), .sync (.log 1)] ∧
    (run 4 (RunSt.init false { w := [.ok 1, .err .eintr, .ok 1, .half] })
        [.append [1, 2, 3], .sync, .append [4, 5, 6], .append [7], .sync]).rcs = [.ok, .ok, .ok, .ok, .ok] := by decide

/-- a MANIFEST: the directory sync precedes the write, the file sync follows it -/
example :
    absGo (.manifest 2) [1, 2, 3, 4, 5] (.chunk) []
      (run 4 (RunSt.init true { w := [.ok 2] }) [.append [1, 2, 3, 4, 5], .sync]).tr
      = [.syncDir, .append (.manifest 2) .chunk, .sync (.manifest 2)] := by decide

end Lcdb.WFile
