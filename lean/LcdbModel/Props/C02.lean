/-
  C02 — synced writes survive power loss at any instant (storage-protocol level).

  `Conforms t` (the run-time monitor of Model/Disk.lean accepted the I/O trace) implies, for every crash point
  `n` and every crash image the model allows for `World.run (t.take n)`:
    * recovery succeeds (`crash_image_readable`, `synced_durable`),
    * every batch acknowledged with sync is replayed from a surviving log, or belongs to a log the recovered
      version has retired (`synced_durable`),
    * under the strict deletion rule (`ConformsStrict`) every log the database had unlinked is below the recovered
      log number (`unlinked_below`, `synced_durable_strict`).
-/
import LcdbModel.Lemmas.Disk

namespace Lcdb.C02
open Lcdb.Disk

theorem logOfBatch_take {t : List Ev} {n b l : Nat} (h : logOfBatch (t.take n) b = some l) : logOfBatch t b = some l := by
  have := logOfBatch_append_some (s := t.drop n) h
  rwa [List.take_append_drop] at this

theorem mem_logNumbers {img : Image} {n : Nat} {recs : List Rec} (h : imgLookup img (.log n) = some recs) :
    n ∈ logNumbers img := by
  unfold logNumbers
  rw [List.mem_filterMap]
  exact ⟨_, imgLookup_mem h, rfl⟩

theorem mem_batchesOf {recs : List Rec} {b : Nat} (h : Rec.batch b ∈ recs) : b ∈ batchesOf recs := by
  unfold batchesOf
  rw [List.mem_filterMap]
  exact ⟨_, h, rfl⟩

theorem replayed_mem {w : World} {j : Nat} {img : Image} (hi : ImgAt w j img) {n id b ln : Nat} {body : Body}
    (hl : lookup (dirAt w j) (.log n) = some id) (hb : w.bodies[id]? = some body)
    (hm : Rec.batch b ∈ body.recs.take body.synced) (hn : ln ≤ n) : b ∈ replayedOf img ln := by
  obtain ⟨b2, n', hb2, hn', him⟩ := img_lookup hi hl
  rw [hb] at hb2
  have : b2 = body := (Option.some.inj hb2).symm
  subst this
  unfold replayedOf
  rw [List.mem_flatMap]
  refine ⟨n, ?_, ?_⟩
  · rw [(List.mergeSort_perm _ _).mem_iff, List.mem_filter]
    exact ⟨mem_logNumbers him, by simpa using hn⟩
  · rw [him]
    exact mem_batchesOf (mem_take_mono hm hn')

/-- (2) Under `Conforms t`, once the database is established (every admissible directory cut has a CURRENT),
    recovery succeeds on every crash image; CURRENT is a complete pointer, the MANIFEST it names exists,
    the recovered version is the one that MANIFEST prefix encodes and every table it names is present with
    exactly the recorded size. -/
theorem crash_image_readable (t : List Ev) (h : Conforms t) (n : Nat)
    (he : established (World.run (t.take n)) = true) (img : Image)
    (hi : IsCrashImage (World.run (t.take n)) img) :
    ∃ r k recs, recover img = some r ∧ imgLookup img .current = some [.ptr k] ∧
      imgLookup img (.manifest k) = some recs ∧ r.tables = (versionOf recs).tables ∧
      (versionOf recs).logNum = some r.logNum ∧
      ∀ p ∈ r.tables, ∃ body, imgLookup img (.table p.1) = some body ∧ body.length = p.2 := by
  have hI := Inv.of_conforms _ (conforms_prefix h n)
  have hw := WInv.run (t.take n)
  obtain ⟨j, hj, hia⟩ := (isCrashImage_iff _ _).1 hi
  obtain ⟨k, recs, v, ln, _, hln, hc, hm, hv, htab, hr⟩ :=
    recover_of_image hw hI.a1 hI.a2 hj (established_current he hj) hia
  subst hv
  exact ⟨_, k, recs, hr, hc, hm, rfl, hln, htab⟩

/-- same, with "a sync write has been acknowledged" as the establishment condition -/
theorem crash_image_readable_acked (t : List Ev) (h : Conforms t) (n : Nat)
    (hs : ackedSync (t.take n) ≠ []) (img : Image) (hi : IsCrashImage (World.run (t.take n)) img) :
    recover img ≠ none := by
  have hI := Inv.of_conforms _ (conforms_prefix h n)
  have hw := WInv.run (t.take n)
  obtain ⟨j, hj, hia⟩ := (isCrashImage_iff _ _).1 hi
  obtain ⟨k, recs, v, ln, _, hln, hc, hm, hv, htab, hr⟩ :=
    recover_of_image hw hI.a1 hI.a2 hj (hI.e1 hs j hj) hia
  rw [hr]; simp

/-- (1) At every crash point after the first synced acknowledgement, for every crash image the model allows,
    recovery succeeds and every batch acknowledged with sync is either replayed from a surviving log or belongs
    to a log that the recovered version has retired. -/
theorem synced_durable (t : List Ev) (h : Conforms t) (n : Nat) (img : Image)
    (hi : IsCrashImage (World.run (t.take n)) img) (hs : ackedSync (t.take n) ≠ []) :
    ∃ r, recover img = some r ∧
      (∀ b ∈ ackedSync (t.take n), b ∈ r.replayed ∨ ∃ l, logOfBatch t b = some l ∧ l < r.logNum) := by
  have hI := Inv.of_conforms _ (conforms_prefix h n)
  have hw := WInv.run (t.take n)
  obtain ⟨j, hj, hia⟩ := (isCrashImage_iff _ _).1 hi
  obtain ⟨k, recs, v, ln, hcand, hln, _, _, _, _, hr⟩ :=
    recover_of_image hw hI.a1 hI.a2 hj (hI.e1 hs j hj) hia
  refine ⟨_, hr, ?_⟩
  intro b hb
  obtain ⟨l, hl, hsafe⟩ := hI.bS b hb
  rcases hsafe j hj v hcand with ⟨ln', hln', hlt⟩ | ⟨id, body, hlk, hbd, hm⟩
  · right
    rw [hln] at hln'
    have : ln = ln' := Option.some.inj hln'
    subst this
    exact ⟨l, logOfBatch_take hl, hlt⟩
  · by_cases hlt : l < ln
    · right; exact ⟨l, logOfBatch_take hl, hlt⟩
    · left; exact replayed_mem hia hlk hbd hm (by omega)

/-! ### the strict deletion rule: unsynced writes are durable once their log was deleted -/

structure InvS (t : List Ev) : Prop where
  c : ∀ l ∈ unlinkedLogs t, ∀ j, InRange (World.run t) j → ∀ v, Cand (World.run t) j v →
        ∃ ln, v.logNum = some ln ∧ l < ln
  eU : unlinkedLogs t ≠ [] → ∀ j, InRange (World.run t) j → (lookup (dirAt (World.run t) j) .current).isSome

theorem unlink_of_mem {e : Ev} {l : Nat} (h : l ∈ unlinkedLogs [e]) : e = .unlink (.log l) := by
  cases e <;> simp [unlinkedLogs] at h
  rename_i f
  cases f <;> simp at h
  rw [h]

theorem delOk_unlink {w : World} {l : Nat} (h : delOk w (.unlink (.log l)) = true) :
    ∀ c ∈ candidates w, candLogBelow l c = true := by
  simpa [delOk, List.all_eq_true] using h

theorem InvS.nil : InvS [] := by
  constructor
  · intro l h; simp [unlinkedLogs] at h
  · intro h; simp [unlinkedLogs] at h

theorem InvS.snoc {t : List Ev} {e : Ev} (hI : Inv t) (hS : InvS t) (hc : ConformsStrict (t ++ [e])) :
    InvS (t ++ [e]) := by
  obtain ⟨_, pre, post⟩ := conforms_snoc hc.1
  obtain ⟨_, hdel⟩ := strict_snoc hc
  have hw : WInv (World.run t) := WInv.run t
  have cur_of_del : ∀ l, e = .unlink (.log l) → ∀ j, InRange (World.run t) j →
      (lookup (dirAt (World.run t) j) .current).isSome := by
    intro l he j hj
    subst he
    cases hl : lookup (dirAt (World.run t) j) .current with
    | some x => rfl
    | none =>
      have := delOk_unlink hdel _ (cand_none hj hl)
      simp [candLogBelow] at this
  constructor
  · rw [run_snoc]
    intro l hl j' hj' v' hC
    rw [unlinkedLogs_snoc, List.mem_append] at hl
    rcases cand_origin hw hI.ops hI.a1 pre post hj' hC with hnone | ⟨j, v, hj, _, hcv, hLe, _⟩
    · exfalso
      have hcur : (lookup (dirAt (World.run t) (World.run t).dirOps.length) .current).isSome := by
        rcases hl with hl | hl
        · exact hS.eU (List.ne_nil_of_mem hl) _ (inRange_len hw)
        · exact cur_of_del l (unlink_of_mem hl) _ (inRange_len hw)
      rw [hnone] at hcur; cases hcur
    · rcases hl with hl | hl
      · obtain ⟨ln, hln, hlt⟩ := hS.c l hl j hj v hcv
        obtain ⟨ln', h1, h2⟩ := hLe ln hln
        exact ⟨ln', h1, by omega⟩
      · have he := unlink_of_mem hl
        subst he
        have := delOk_unlink hdel _ (cand_mem hw hj hcv)
        simp only [candLogBelow] at this
        cases hv : v.logNum with
        | none => simp [hv] at this
        | some ln =>
          simp [hv] at this
          obtain ⟨ln', h1, h2⟩ := hLe ln hv
          exact ⟨ln', h1, by omega⟩
  · rw [run_snoc]
    intro hne j' hj'
    obtain ⟨j, hj, _, himp⟩ := cur_persist hw pre hj'
    apply himp
    by_cases hold : unlinkedLogs t = []
    · rw [unlinkedLogs_snoc, hold, List.nil_append] at hne
      obtain ⟨l, hl⟩ := List.exists_mem_of_ne_nil _ hne
      exact cur_of_del l (unlink_of_mem hl) j hj
    · exact hS.eU hold j hj

theorem InvS.of_strict : ∀ (t : List Ev), ConformsStrict t → InvS t := by
  intro t
  induction t using snoc_induction with
  | nil => intro _; exact InvS.nil
  | snoc t e ih =>
    intro h
    have h0 := (strict_snoc h).1
    exact InvS.snoc (Inv.of_conforms _ h0.1) (ih h0) h

/-- under the strict deletion rule every log the database had already unlinked is below the recovered log
    number, in every crash image (so the data of a deleted log is in the recovered version's tables) -/
theorem unlinked_below (t : List Ev) (h : ConformsStrict t) (n : Nat) (img : Image)
    (hi : IsCrashImage (World.run (t.take n)) img) (r : Recovered) (hr : recover img = some r) :
    ∀ l ∈ unlinkedLogs (t.take n), l < r.logNum := by
  have hI := Inv.of_conforms _ (conforms_prefix h.1 n)
  have hS := InvS.of_strict _ (strict_prefix h n)
  have hw := WInv.run (t.take n)
  obtain ⟨j, hj, hia⟩ := (isCrashImage_iff _ _).1 hi
  intro l hl
  have hcur := hS.eU (List.ne_nil_of_mem hl) j hj
  obtain ⟨k, recs, v, ln, hcand, hln, _, _, _, _, hr'⟩ := recover_of_image hw hI.a1 hI.a2 hj hcur hia
  rw [hr'] at hr
  have : r = ⟨ln, v.tables, replayedOf img ln⟩ := (Option.some.inj hr).symm
  subst this
  obtain ⟨ln', h1, h2⟩ := hS.c l hl j hj v hcand
  rw [hln] at h1
  have : ln = ln' := Option.some.inj h1
  subst this
  exact h2

/-- (1), full statement, under the strict deletion rule -/
theorem synced_durable_strict (t : List Ev) (h : ConformsStrict t) (n : Nat) (img : Image)
    (hi : IsCrashImage (World.run (t.take n)) img) (hs : ackedSync (t.take n) ≠ []) :
    ∃ r, recover img = some r ∧
      (∀ b ∈ ackedSync (t.take n), b ∈ r.replayed ∨ ∃ l, logOfBatch t b = some l ∧ l < r.logNum) ∧
      (∀ l ∈ unlinkedLogs (t.take n), l < r.logNum) := by
  obtain ⟨r, hr, hb⟩ := synced_durable t h.1 n img hi hs
  exact ⟨r, hr, hb, unlinked_below t h n img hi r hr⟩


/-! ### (5) non-vacuity: a concrete conforming trace, recovery from its crash images, and negative examples -/

set_option maxRecDepth 100000

/-- abbreviation for a MANIFEST record -/
def ed (ln : Option Nat) (nt : List (Nat × Nat) := []) (dt : List Nat := []) : Rec :=
  .edit { logNum := ln, newTables := nt, delTables := dt }

/-- `ldb_new_db`: MANIFEST-1 with one edit (log number 0), fsynced; CURRENT installed via `1.dbtmp` -/
def setup : List Ev := [
  .create (.manifest 1), .append (.manifest 1) (ed (some 0)), .sync (.manifest 1),
  .create (.tmp 1), .append (.tmp 1) (.ptr 1), .sync (.tmp 1), .rename (.tmp 1) .current ]

/-- database creation, the MANIFEST roll-over of `ldb_open` (snapshot + edit, directory fsync, fsync, CURRENT switch,
    old MANIFEST unlinked), writes with and without sync, a memtable flush (new log, table written and fsynced,
    edit with the new log number appended and fsynced, old log unlinked), one more synced write -/
def exTrace : List Ev := setup ++ [
  .create (.log 3), .create (.manifest 2), .append (.manifest 2) (ed none), .append (.manifest 2) (ed (some 3)),
  .syncDir, .sync (.manifest 2), .create (.tmp 2), .append (.tmp 2) (.ptr 2), .sync (.tmp 2),
  .rename (.tmp 2) .current, .unlink (.manifest 1),
  .append (.log 3) (.batch 1), .ack 1 false,
  .append (.log 3) (.batch 2), .sync (.log 3), .ack 2 true,
  .create (.log 4), .append (.log 4) (.batch 3), .ack 3 false,
  .create (.table 5), .append (.table 5) .chunk, .append (.table 5) .chunk, .sync (.table 5),
  .append (.manifest 2) (ed (some 4) [(5, 2)]), .syncDir, .sync (.manifest 2),
  .unlink (.log 3),
  .append (.log 4) (.batch 4), .sync (.log 4), .ack 4 true ]

theorem conforms_example : Conforms exTrace ∧ exTrace.length = 37 := by decide

theorem conforms_example_strict : ConformsStrict exTrace := by decide

theorem inRange_of {w : World} {j : Nat} (h1 : w.dirSynced ≤ j) (h2 : j ≤ w.dirOps.length) : InRange w j := ⟨h1, h2⟩

/-- crash right after `ack 2 true`: the minimal image (every file cut to its fsynced part) recovers batches 1, 2 -/
theorem example_crash_after_sync_ack :
    IsCrashImage (World.run (exTrace.take 23)) (cutImage (World.run (exTrace.take 23)) 8 (fun _ => 0)) ∧
    recover (cutImage (World.run (exTrace.take 23)) 8 (fun _ => 0)) =
      some { logNum := 3, tables := [], replayed := [1, 2] } := by
  refine ⟨cutImage_isCrashImage (WInv.run _) (inRange_of (by decide) (by decide)) _, ?_⟩
  rw [recover_eq_recoverI]; decide

/-- crash in the middle of the flush (the edit is appended but not fsynced): with the MANIFEST tail lost the old
    version (log number 3) is recovered and the synced batches 1, 2 are replayed (batch 3 was not synced and is in
    the unsynced part of log 4); with the tail surviving the new version (table 5, log number 4) is recovered -/
theorem example_crash_mid_flush :
    IsCrashImage (World.run (exTrace.take 31)) (cutImage (World.run (exTrace.take 31)) 10 (fun _ => 0)) ∧
    recover (cutImage (World.run (exTrace.take 31)) 10 (fun _ => 0)) =
      some { logNum := 3, tables := [], replayed := [1, 2] } ∧
    IsCrashImage (World.run (exTrace.take 31)) (cutImage (World.run (exTrace.take 31)) 10 (fun _ => 100)) ∧
    recover (cutImage (World.run (exTrace.take 31)) 10 (fun _ => 100)) =
      some { logNum := 4, tables := [(5, 2)], replayed := [3] } := by
  refine ⟨cutImage_isCrashImage (WInv.run _) (inRange_of (by decide) (by decide)) _, ?_,
          cutImage_isCrashImage (WInv.run _) (inRange_of (by decide) (by decide)) _, ?_⟩
  · rw [recover_eq_recoverI]; decide
  · rw [recover_eq_recoverI]; decide

/-- process kill at the end of the trace: everything acknowledged and not yet flushed is replayed -/
theorem example_kill :
    recover (killImage (World.run exTrace)) = some { logNum := 4, tables := [(5, 2)], replayed := [3, 4] } := by
  rw [recover_eq_recoverI]; decide

/-- N1: sync ack before the log record is fsynced.  The monitor rejects exactly the last event, and the minimal
    crash image loses the acknowledged batch 1 (it is neither replayed nor retired). -/
def bad1 : List Ev := setup ++ [ .create (.log 3), .syncDir, .append (.log 3) (.batch 1), .ack 1 true ]

theorem bad1_rejected : ¬ Conforms bad1 ∧ Conforms (bad1.take 10) ∧ bad1.length = 11 := by decide

theorem bad1_loses :
    IsCrashImage (World.run bad1) (cutImage (World.run bad1) 4 (fun _ => 0)) ∧
    recover (cutImage (World.run bad1) 4 (fun _ => 0)) = some { logNum := 0, tables := [], replayed := [] } ∧
    1 ∈ ackedSync bad1 ∧ logOfBatch bad1 1 = some 3 := by
  refine ⟨cutImage_isCrashImage (WInv.run _) (inRange_of (by decide) (by decide)) _, ?_, by decide, by decide⟩
  rw [recover_eq_recoverI]; decide

/-- N2: a MANIFEST edit names a table that was not fsynced.  The monitor rejects exactly the edit (event 11), and
    after the MANIFEST's fsync the minimal crash image (table 5 present but empty) makes recovery fail. -/
def bad2 : List Ev := setup ++ [ .create (.log 3), .create (.table 5), .append (.table 5) .chunk,
  .append (.manifest 1) (ed (some 0) [(5, 1)]), .sync (.manifest 1) ]

theorem bad2_rejected : ¬ Conforms bad2 ∧ ¬ Conforms (bad2.take 11) ∧ Conforms (bad2.take 10) := by decide

theorem bad2_loses :
    IsCrashImage (World.run bad2) (cutImage (World.run bad2) 5 (fun _ => 0)) ∧
    recover (cutImage (World.run bad2) 5 (fun _ => 0)) = none := by
  refine ⟨cutImage_isCrashImage (WInv.run _) (inRange_of (by decide) (by decide)) _, ?_⟩
  rw [recover_eq_recoverI]; decide

/-- N3: the old log is unlinked before the edit that retires it is fsynced.  The monitor rejects exactly the unlink;
    in the crash image that keeps the unlink but only the fsynced part of the MANIFEST the sync-acknowledged
    batch 1 is lost. -/
def bad3 : List Ev := setup ++ [ .create (.log 3), .append (.log 3) (.batch 1), .sync (.log 3), .ack 1 true,
  .create (.log 4), .create (.table 5), .append (.table 5) .chunk, .sync (.table 5),
  .append (.manifest 1) (ed (some 4) [(5, 1)]), .unlink (.log 3) ]

theorem bad3_rejected : ¬ Conforms bad3 ∧ Conforms (bad3.take 16) ∧ bad3.length = 17 := by decide

theorem bad3_loses :
    IsCrashImage (World.run bad3) (cutImage (World.run bad3) 7 (fun _ => 0)) ∧
    recover (cutImage (World.run bad3) 7 (fun _ => 0)) = some { logNum := 0, tables := [], replayed := [] } ∧
    1 ∈ ackedSync bad3 ∧ logOfBatch bad3 1 = some 3 := by
  refine ⟨cutImage_isCrashImage (WInv.run _) (inRange_of (by decide) (by decide)) _, ?_, by decide, by decide⟩
  rw [recover_eq_recoverI]; decide

/-- N4: CURRENT is switched to a MANIFEST that was not fsynced.  The monitor rejects exactly the rename; in the
    crash image that keeps the rename but only the fsynced (empty) part of the MANIFEST recovery fails. -/
def bad4 : List Ev := [ .create (.manifest 1), .append (.manifest 1) (ed (some 0)),
  .create (.tmp 1), .append (.tmp 1) (.ptr 1), .sync (.tmp 1), .rename (.tmp 1) .current ]

theorem bad4_rejected : ¬ Conforms bad4 ∧ Conforms (bad4.take 5) ∧ bad4.length = 6 := by decide

theorem bad4_loses :
    IsCrashImage (World.run bad4) (cutImage (World.run bad4) 3 (fun _ => 0)) ∧
    recover (cutImage (World.run bad4) 3 (fun _ => 0)) = none := by
  refine ⟨cutImage_isCrashImage (WInv.run _) (inRange_of (by decide) (by decide)) _, ?_⟩
  rw [recover_eq_recoverI]; decide

/-- N5 (the strict deletion rule is not implied by `Conforms`, and lcdb's `ldb_open` does not meet it): a reopen
    replays log 3 into table 5, writes MANIFEST-7, switches CURRENT and immediately unlinks log 3 without an fsync
    in between.  The trace conforms, but not strictly; in the crash image in which the rename did not persist the
    old version (log number 0) is recovered, log 3 is back with only its fsynced (empty) part, and the unsynced
    batch 1 — whose log the database had already deleted — is lost. -/
def reopenTrace : List Ev := setup ++ [ .create (.log 3), .append (.log 3) (.batch 1), .ack 1 false,
  .create (.table 5), .append (.table 5) .chunk, .sync (.table 5), .create (.log 6), .create (.manifest 7),
  .append (.manifest 7) (ed none [(5, 1)]), .append (.manifest 7) (ed (some 6)), .syncDir, .sync (.manifest 7),
  .create (.tmp 7), .append (.tmp 7) (.ptr 7), .sync (.tmp 7), .rename (.tmp 7) .current,
  .unlink (.manifest 1), .unlink (.log 3) ]

theorem reopen_conforms_not_strict : Conforms reopenTrace ∧ ¬ ConformsStrict reopenTrace := by decide

theorem reopen_loses_unsynced :
    IsCrashImage (World.run reopenTrace) (cutImage (World.run reopenTrace) 8 (fun _ => 0)) ∧
    recover (cutImage (World.run reopenTrace) 8 (fun _ => 0)) = some { logNum := 0, tables := [], replayed := [] } ∧
    3 ∈ unlinkedLogs reopenTrace := by
  refine ⟨cutImage_isCrashImage (WInv.run _) (inRange_of (by decide) (by decide)) _, ?_, by decide⟩
  rw [recover_eq_recoverI]; decide

end Lcdb.C02
