/-
  Capstone joining the drop-loop slice (`Props/CompactionProps.lean`) and the file-selection slice
  (`Props/PolicyProps.lean`): a compaction whose inputs are chosen by `setup_other_inputs` and whose output
  tables are ANY cut of what the work loop emits, with fresh file numbers, is a contract-respecting step in
  full — so it keeps `Inv` and every view from the smallest protected sequence on.
-/
import LcdbModel.Lemmas.CompactionCapstone
namespace Lcdb.Compaction
open Lcdb Lcdb.Policy

/-- 1. cutting a strictly sorted run into files yields well-formed, strictly ordered files (the part of
    clause (b) of `stepOk (.compact ..)` that concerns the outputs alone) -/
theorem chunks_fileOk (c : Cmp) (o : Run) (outs : List FileMeta) (hs : RunSorted c o) (hc : IsCut o outs) :
    (∀ f ∈ outs, FileOk c f) ∧ outs.Pairwise (fun f g => ikLt c f.lk f.lp g.sk g.sp = true) :=
  cut_spec hs hc

theorem levelSeqDistinct_of_noSeqTies {c : Cmp} {st : DbState} (hnt : NoSeqTies c st) (l : Nat) :
    LevelSeqDistinct c (st.level l) := by
  intro f hf g hg x hx y hy hk hs
  exact hnt x (mem_allEntries.mpr (.inr (.inr ⟨f, mem_allFiles.mpr ⟨l, hf⟩, hx⟩)))
    y (mem_allEntries.mpr (.inr (.inr ⟨g, mem_allFiles.mpr ⟨l, hg⟩, hy⟩))) hk hs

/-- 2a. the gap lemma (rest of clause (b)): well-formed, strictly ordered output files whose entries are drawn
    from the inputs chosen by setup_other_inputs fit into the gap the removed level-(N+1) inputs leave -/
theorem outputs_fit_gap (c : Cmp) (st : DbState) (hinv : Inv c st) (hnt : NoSeqTies c st) (mfs level : Nat)
    (seed : List FileMeta) (s : Setup) (hseed : SeedOk c (st.level level) (level == 0) seed)
    (h : versionSetup c mfs st.levels level seed = some s) (outs : List FileMeta)
    (houts : ∀ f ∈ outs, FileOk c f) (hpo : outs.Pairwise (fun f g => ikLt c f.lk f.lp g.sk g.sp = true))
    (hdraw : ∀ e ∈ outs.flatMap (·.run),
      e ∈ (pickNums (st.level level) (s.in0.map (·.num)) ++
            pickNums (st.level (level + 1)) (s.in1.map (·.num))).flatMap (·.run)) :
    LevelSorted c (addFiles c (level + 1) (removeNums (st.level (level + 1)) (s.in1.map (·.num))) outs) := by
  unfold versionSetup at h
  split at h
  · obtain ⟨sg, hsg, e0, e1, _, _⟩ := setupOtherInputs_shape h
    have hok : ∀ l, ∀ f ∈ st.level l, FileOk c f := fun l f hf => hinv.filesOk f (Lsm.mem_allFiles_of_mem_level hf)
    have hl0 : (level == 0) = false → level ≠ 0 := by intro h1 h2; simp [h2] at h1
    have hs1 := hinv.levelsSorted (level + 1) (by omega)
    obtain ⟨hsub0, hsub1, _, _, _⟩ := contract_of_stageOk (c := c) (level0 := level == 0)
      (lv := st.level level) (lv1 := st.level (level + 1))
      (fun h0 => hinv.levelsSorted level (Nat.pos_of_ne_zero (hl0 h0)))
      hs1 (hok level) (hok (level + 1))
      (kinds_of_inv hinv level) (kinds_of_inv hinv (level + 1))
      (fun _ => levelSeqDistinct_of_noSeqTies hnt level) (levelSeqDistinct_of_noSeqTies hnt (level + 1)) hseed hsg
    rw [← e0] at hsub0
    rw [← e1] at hsub1
    have hin : ∀ e ∈ outs.flatMap (·.run), ∃ f0, (f0 ∈ sg.in0 ∨ f0 ∈ sg.in1) ∧ e ∈ f0.run := by
      intro e he
      obtain ⟨f0, hf0, hef0⟩ := List.mem_flatMap.mp (hdraw e he)
      rcases List.mem_append.mp hf0 with hf0 | hf0
      · exact ⟨f0, .inl (e0 ▸ (mem_pickNums_iff hinv hsub0 f0).mp hf0), hef0⟩
      · exact ⟨f0, .inr (e1 ▸ (mem_pickNums_iff hinv hsub1 f0).mp hf0), hef0⟩
    apply addFiles_levelSorted
    · exact List.Pairwise.sublist List.filter_sublist hs1
    · intro g hg
      exact hok (level + 1) g ((mem_removeNums_iff hinv hsub1 g).mp hg).1
    · exact houts
    · exact hpo
    · intro f hf g hg
      obtain ⟨hg1, hg2⟩ := (mem_removeNums_iff hinv hsub1 g).mp hg
      rw [e1] at hg2
      rw [e0] at hsub0
      rcases rest_before_or_after hs1 (hok level) (hok (level + 1)) hsub0 hsg g hg1 hg2 with hb | ha
      · left
        obtain ⟨m, hm, hmk, hmp⟩ := Lsm.fileOk_smallest_mem (houts f hf)
        obtain ⟨f0, hf0, hmf0⟩ := hin m (List.mem_flatMap.mpr ⟨f, hf, hm⟩)
        rw [← hmk, ← hmp]
        exact hb f0 hf0 m hmf0
      · right
        obtain ⟨m, hm, hmk, hmp⟩ := Lsm.fileOk_largest_mem (houts f hf)
        obtain ⟨f0, hf0, hmf0⟩ := hin m (List.mem_flatMap.mpr ⟨f, hf, hm⟩)
        rw [← hmk, ← hmp]
        exact ha f0 hf0 m hmf0
  · cases h

/-- 2. THE CAPSTONE: inputs chosen by setup_other_inputs from a seed as pick_compaction / compact_range make
    it; outputs = any cut of what the work loop emits for a smallest snapshot `sm ≤ smallestProtected st`
    (possibly no file at all), with fresh pairwise different file numbers.  Then the step meets
    `stepOk (.compact ..)` IN FULL. -/
theorem mechanism_full_stepOk (c : Cmp) (st : DbState) (hinv : Inv c st) (hnt : NoSeqTies c st)
    (mfs level : Nat) (seed : List FileMeta) (s : Setup)
    (hseed : SeedOk c (st.level level) (level == 0) seed)
    (h : versionSetup c mfs st.levels level seed = some s)
    (sm : Nat) (hsm : sm ≤ smallestProtected st) (outs : List FileMeta)
    (hcut : IsCut (expectedOutput c st level (pickNums (st.level level) (s.in0.map (·.num)))
      (pickNums (st.level (level + 1)) (s.in1.map (·.num))) sm) outs)
    (hfresh : ∀ f ∈ outs, st.nextFile ≤ f.num) (hnums : outs.Pairwise (fun f g => f.num ≠ g.num)) :
    stepOk c st (.compact level (s.in0.map (·.num)) (s.in1.map (·.num)) outs) := by
  have hout := hcut.1
  have h0 : (pickNums (st.level level) (s.in0.map (·.num))).Sublist (st.level level) := List.filter_sublist
  have h1 : (pickNums (st.level (level + 1)) (s.in1.map (·.num))).Sublist (st.level (level + 1)) :=
    List.filter_sublist
  have hsorted : RunSorted c (expectedOutput c st level (pickNums (st.level level) (s.in0.map (·.num)))
      (pickNums (st.level (level + 1)) (s.in1.map (·.num))) sm) := by
    rw [expectedOutput_eq_spec c st level _ _ sm hinv h0 h1]
    exact (dropLoop_mem_sorted c sm _ _).2 (merged_sorted_perm hinv h0 h1).1
  obtain ⟨hfo, hpo⟩ := chunks_fileOk c _ outs hsorted hcut
  obtain ⟨c1, _, _⟩ := expectedOutput_meets_contract c st level _ _ outs sm hinv hnt hsm hout
  have hgap := outputs_fit_gap c st hinv hnt mfs level seed s hseed h outs hfo hpo c1
  obtain ⟨a1, a2, a3, a4, a5, a6⟩ := setupOtherInputs_establishes_contract c st hinv mfs level seed s hseed
    (fun _ => levelSeqDistinct_of_noSeqTies hnt level) (levelSeqDistinct_of_noSeqTies hnt (level + 1)) h
  have hframe : compactFrame c st level (s.in0.map (·.num)) (s.in1.map (·.num)) outs := by
    refine ⟨a1, a2, a3, a4, a5, a6, hfo, hgap, ?_, hnums⟩
    intro f hf g hg hnum
    have := hinv.numsBound g hg
    have := hfresh f hf
    omega
  exact mechanism_stepOk c st level _ _ outs sm hinv hnt hframe hsm hout

/-- ... hence the invariant survives and every view at `q ≥ smallestProtected st` is unchanged -/
theorem mechanism_full_preserves (c : Cmp) (st : DbState) (hinv : Inv c st) (hnt : NoSeqTies c st)
    (mfs level : Nat) (seed : List FileMeta) (s : Setup)
    (hseed : SeedOk c (st.level level) (level == 0) seed)
    (h : versionSetup c mfs st.levels level seed = some s)
    (sm : Nat) (hsm : sm ≤ smallestProtected st) (outs : List FileMeta)
    (hcut : IsCut (expectedOutput c st level (pickNums (st.level level) (s.in0.map (·.num)))
      (pickNums (st.level (level + 1)) (s.in1.map (·.num))) sm) outs)
    (hfresh : ∀ f ∈ outs, st.nextFile ≤ f.num) (hnums : outs.Pairwise (fun f g => f.num ≠ g.num)) :
    Inv c (applyStep c st (.compact level (s.in0.map (·.num)) (s.in1.map (·.num)) outs)) ∧
    NoSeqTies c (applyStep c st (.compact level (s.in0.map (·.num)) (s.in1.map (·.num)) outs)) ∧
    ∀ k q, smallestProtected st ≤ q →
      view c (allEntries (applyStep c st (.compact level (s.in0.map (·.num)) (s.in1.map (·.num)) outs))) k q =
        view c (allEntries st) k q := by
  have hok := mechanism_full_stepOk c st hinv hnt mfs level seed s hseed h sm hsm outs hcut hfresh hnums
  exact ⟨C14.step_preserves_inv c st _ hinv hok, C06.step_preserves_noSeqTies c st _ hinv hnt hok,
    fun k q hq => C06.compact_preserves_view_above c st level _ _ outs hinv hnt hok k q hq⟩

end Lcdb.Compaction

/-! ### 3. non-vacuity: the state `stE` of `Props/CompactionProps.lean`, seed = both level-0 files, real
    `versionSetup`, output cut into the single file `e8`, file number 8 ≥ nextFile 7 -/
namespace Lcdb.Compaction.Ex
open Lcdb Lcdb.Policy Lcdb.C14.Ex

theorem seedE : SeedOk .bytewise (stE.level 0) ((0 : Nat) == 0) [e5, e4] :=
  ⟨by decide, by decide, by
    rw [if_pos (by decide)]; unfold Closed0; decide⟩

theorem setupE : (versionSetup .bytewise 2097152 stE.levels 0 [e5, e4]).map (fun s => (s.in0, s.in1)) =
    some ([e5, e4], [e3]) := by decide

example : ∃ s, versionSetup .bytewise 2097152 stE.levels 0 [e5, e4] = some s ∧
    stepOk .bytewise stE (.compact 0 (s.in0.map (·.num)) (s.in1.map (·.num)) [e8]) ∧
    Inv .bytewise (applyStep .bytewise stE (.compact 0 (s.in0.map (·.num)) (s.in1.map (·.num)) [e8])) := by
  cases h : versionSetup .bytewise 2097152 stE.levels 0 [e5, e4] with
  | none => have := setupE; rw [h] at this; cases this
  | some s =>
    have hs := setupE
    rw [h] at hs
    simp only [Option.map_some, Option.some.injEq, Prod.mk.injEq] at hs
    have hcut : IsCut (expectedOutput .bytewise stE 0 (pickNums (stE.level 0) (s.in0.map (·.num)))
        (pickNums (stE.level 1) (s.in1.map (·.num))) 6) [e8] := by
      rw [hs.1, hs.2]
      have p0 : pickNums (stE.level 0) ([e5, e4].map (·.num)) = [e5, e4] := by decide
      have p1 : pickNums (stE.level 1) ([e3].map (·.num)) = [e3] := by decide
      rw [p0, p1, outE]
      decide
    have hok := mechanism_full_stepOk .bytewise stE invE ntE 2097152 0 [e5, e4] s seedE h 6 (by decide) [e8]
      hcut (by decide) (by decide)
    exact ⟨s, rfl, hok, C14.step_preserves_inv _ _ _ invE hok⟩
end Lcdb.Compaction.Ex
