/-
  The user-level iterator (db_iter.c) over the REAL memtable iterator (memtable.c over skiplist.c).

  * `dbiter_is_map_cursor_bounded` — the target-bounded variant of `C07x.dbiter_is_map_cursor_gen`: for an internal
    iterator that simulates the run cursor for all seek targets satisfying `P` (`InternalIter.SimOn P`), DBIter over it is
    the map cursor over `visibleMap c r s` for every operation sequence whose seek targets satisfy `P · (seekPacked s)`;
  * `memiter_simOn` — the memtable iterator of a memtable holding `es` satisfies `SimOn` for targets below 4 GiB;
  * `dbiter_over_memtable` — DBIter over the iterator of the memtable built by ANY sequence of `ldb_memtable_add`s
    (heights from the list's generator) = map cursor over the visible map of the run of the writes.
-/
import LcdbModel.Lemmas.SkiplistDbIter
import LcdbModel.Props.SkiplistProps
namespace Lcdb.Skiplist
open Lcdb Lcdb.Memtable Lcdb.C07x

/-- **dbiter_is_map_cursor_bounded.**  `hreach`: every cursor position is represented by some iterator state (used only to
    answer out-of-bounds targets in the auxiliary patched iterator; never executed on in-bounds sequences). -/
theorem dbiter_is_map_cursor_bounded {σ : Type} {I : InternalIter σ} {c : Cmp} {r : Run}
    {R : σ → Option Nat → Prop} (P : Bytes → Nat → Prop) (hsim : InternalIter.SimOn P I (runIter c r) R)
    (hreach : ∀ p : Option Nat, (∀ i, p = some i → i < r.length) → ∃ a, R a p)
    (hs : RunSorted c r) (hk : ∀ e ∈ r, e.kind ≤ 1) (s : Nat) {fuel : Nat} (hfuel : r.length + 2 ≤ fuel)
    {it₀ : σ} {p₀ : Option Nat} (h₀ : R it₀ p₀) (ops : List IterOp)
    (hops : ∀ op ∈ ops, ∀ t, DbIter.opTarget op = some t → P t (seekPacked s)) :
    ∃ st', DbIter.run I c s fuel ops (DbIter.create it₀) = some st' ∧
      Shows I st' (visibleMap c r s) (ops.foldl (mapCursorStep c (visibleMap c r s)) .invalid) := by
  classical
  let g : Bytes → Nat → σ → Option σ := fun k pk a =>
    if P k pk then I.seek k pk a
    else some (Classical.choose (hreach (runSeekIdx c r k pk) (fun i hi => runSeekIdx_lt hi)))
  have hfull : InternalIter.Sim (patchSeek I g) (runIter c r) R := by
    refine ⟨hsim.valid, hsim.entry, hsim.status, hsim.first, hsim.last, ?_, hsim.next, hsim.prev⟩
    intro k pk a b hab
    by_cases hp : P k pk
    · obtain ⟨a', b', h1, h2, h3⟩ := hsim.seek k pk a b hp hab
      exact ⟨a', b', by show g k pk a = _; simp only [g, if_pos hp]; exact h1, h2, h3⟩
    · have hr := hreach (runSeekIdx c r k pk) (fun i hi => runSeekIdx_lt hi)
      exact ⟨Classical.choose hr, runSeekIdx c r k pk, by show g k pk a = _; simp only [g, if_neg hp], rfl,
        Classical.choose_spec hr⟩
  obtain ⟨st', h1, h2⟩ := dbiter_is_map_cursor_gen hfull hs hk s hfuel h₀ ops
  rw [DbIter.run_patch I g c s fuel ops _ (fun op hop t ht a => by
    show g t (seekPacked s) a = _; simp only [g, if_pos (hops op hop t ht)])] at h1
  exact ⟨st', h1, h2⟩

/-- seek targets for which the memtable iterator is faithful: below 4 GiB, trailer a uint64 -/
def TargetOk (k : Bytes) (pk : Nat) : Prop := k.length + 8 < 2 ^ 32 ∧ pk < 2 ^ 64

/-- **memiter_simOn.**  The memtable iterator simulates the cursor over the run, for bounded targets. -/
theorem memiter_simOn (tok : Bytes → String) {mt : Memtable} {es : List MEntry} {L : List Nat} (ha : Aligned mt es L) :
    InternalIter.SimOn TargetOk (memIter tok mt) (runIter mt.c (es.map (MEntry.toEntry tok))) (IterRel L) := by
  have step := fun op hop it p (hr : IterRel L it p) => memiter_step tok ha op hop hr
  refine ⟨fun a b h => (memiter_observe tok ha h).1, fun a b h => (memiter_observe tok ha h).2, fun _ _ _ => rfl,
    fun a b h => step .first trivial a b h, fun a b h => step .last trivial a b h,
    fun k pk a b hp h => step (.seek k pk) hp a b h, ?_, ?_⟩
  · intro a b h hv
    obtain ⟨a', b', h1, h2, h3⟩ := step .next trivial a b h
    have hv' := (memiter_observe tok ha h).1 ▸ hv
    simp only [InternalIter.apply, hv, hv', if_true] at h1 h2
    exact ⟨a', b', h1, h2, h3⟩
  · intro a b h hv
    obtain ⟨a', b', h1, h2, h3⟩ := step .prev trivial a b h
    have hv' := (memiter_observe tok ha h).1 ▸ hv
    simp only [InternalIter.apply, hv, hv', if_true] at h1 h2
    exact ⟨a', b', h1, h2, h3⟩

theorem mem_foldl_mrunInsert {c : Cmp} {x : MEntry} (l acc : List MEntry) :
    x ∈ l.foldl (fun r e => mrunInsert c e r) acc ↔ x ∈ acc ∨ x ∈ l := by
  induction l generalizing acc with
  | nil => simp
  | cons e t ih => simp only [List.foldl_cons, ih, mem_mrunInsert, List.mem_cons]; grind

/-- the run a memtable holds is strictly sorted -/
theorem Holds.runSorted (tok : Bytes → String) {mt : Memtable} {es : List MEntry} (h : Holds mt es) :
    RunSorted mt.c (es.map (MEntry.toEntry tok)) := by
  obtain ⟨L, ha⟩ := h.aligned
  have hs := ha.inv.sorted
  rw [RunSorted, List.pairwise_map]
  rw [List.pairwise_iff_getElem] at hs ⊢
  intro i j hi hj hij
  have hiL : i < L.length := by rw [ha.len]; exact hi
  have hjL : j < L.length := by rw [ha.len]; exact hj
  obtain ⟨ka, kb, h1, h2, h3⟩ := hs i j hiL hjL hij
  rw [ha.key i hiL hi] at h1; cases h1
  rw [ha.key j hjL hj] at h2; cases h2
  exact (memKeyCmp_enc_lt mt.c (ha.wf _ (List.getElem_mem hi)) (ha.wf _ (List.getElem_mem hj))).mp h3

/-- DBIter over the iterator of a memtable that holds `es` -/
theorem dbiter_over_holds (tok : Bytes → String) {mt : Memtable} {es : List MEntry} (h : Holds mt es)
    (hk : ∀ e ∈ es, e.kind ≤ 1) (s : Nat) (hs : s < 2 ^ 56) {fuel : Nat} (hfuel : es.length + 2 ≤ fuel) (ops : List IterOp)
    (hops : ∀ op ∈ ops, ∀ t, DbIter.opTarget op = some t → t.length + 8 < 2 ^ 32) :
    ∃ st', DbIter.run (memIter tok mt) mt.c s fuel ops (DbIter.create iterInit) = some st' ∧
      Shows (memIter tok mt) st' (visibleMap mt.c (es.map (MEntry.toEntry tok)) s)
        (ops.foldl (mapCursorStep mt.c (visibleMap mt.c (es.map (MEntry.toEntry tok)) s)) .invalid) := by
  obtain ⟨L, ha⟩ := h.aligned
  refine dbiter_is_map_cursor_bounded TargetOk (memiter_simOn tok ha) ?_ (Holds.runSorted tok h) ?_ s (by simpa using hfuel)
    (IterRel.none (L := L)) ops ?_
  · intro p hp
    refine ⟨p.bind (L[·]?), rfl, fun i hi => ?_⟩
    have := hp i hi
    rw [ha.len]; simpa using this
  · intro e he
    obtain ⟨m, hm, rfl⟩ := List.mem_map.mp he
    exact hk m hm
  · intro op hop t ht
    exact ⟨hops op hop t ht, by unfold seekPacked valtypeSeek; omega⟩

/-- **dbiter_over_memtable.**  Well-formed writes with pairwise distinct internal keys and types ≤ 1, added by
    `ldb_memtable_add` in any order (node heights from the list's own generator): the adds do not fault, and for every
    snapshot sequence `s < 2^56` and EVERY sequence of the nine public operations whose seek targets are below 4 GiB, DBIter
    over the real memtable iterator does not fault (fuel `writes + 2`) and shows exactly what the sorted map
    `visibleMap c (mkRun c writes) s` dictates — same validity, key, value, status OK. -/
theorem dbiter_over_memtable (c : Cmp) (tok : Bytes → String) (ws : List MEntry) (hwf : ∀ e ∈ ws, e.wf)
    (hd : DistinctIKeys ws) (hk : ∀ e ∈ ws, e.kind ≤ 1) (s : Nat) (hs : s < 2 ^ 56) (ops : List IterOp)
    (hops : ∀ op ∈ ops, ∀ t, DbIter.opTarget op = some t → t.length + 8 < 2 ^ 32) :
    ∃ mt st', addMany (Memtable.create c) ws = some mt ∧
      DbIter.run (memIter tok mt) c s (ws.length + 2) ops (DbIter.create iterInit) = some st' ∧
      Shows (memIter tok mt) st' (visibleMap c (mkRun c (ws.map (MEntry.toEntry tok))) s)
        (ops.foldl (mapCursorStep c (visibleMap c (mkRun c (ws.map (MEntry.toEntry tok))) s)) .invalid) := by
  obtain ⟨mt, hrun, hc, hh⟩ := addMany_holds ws (Memtable.create c) [] (create_holds c)
    (randInit_range 0xdeadbeef) hwf (by simp) hd
  have hc' : mt.c = c := hc
  have hrunEq : (ws.foldl (fun r e => mrunInsert (Memtable.create c).c e r) []).map (MEntry.toEntry tok)
      = mkRun c (ws.map (MEntry.toEntry tok)) := by rw [foldl_mrunInsert_toEntry]; rfl
  obtain ⟨st', h1, h2⟩ := dbiter_over_holds tok hh
    (fun e he => hk e (by rcases (mem_foldl_mrunInsert ws []).mp he with h | h; cases h; exact h))
    s hs (fuel := ws.length + 2) (by rw [length_foldl_mrunInsert]; simp) ops hops
  rw [hc'] at h1 h2
  rw [hrunEq] at h2
  exact ⟨mt, st', hrun, h1, h2⟩

/-! non-vacuity: the hypotheses are met by a concrete write set and operation sequence -/
example : (∀ e ∈ exWrites.map (·.1), e.wf) ∧ DistinctIKeys (exWrites.map (·.1)) ∧ (∀ e ∈ exWrites.map (·.1), e.kind ≤ 1) ∧
    (∀ op ∈ [IterOp.seek [0x61], .next, .prev, .seekLt [0x62], .last], ∀ t, DbIter.opTarget op = some t → t.length + 8 < 2 ^ 32) := by
  unfold DistinctIKeys MEntry.wf
  decide

end Lcdb.Skiplist
