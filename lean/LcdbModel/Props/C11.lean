import LcdbModel.Props.TableProps
import LcdbModel.Props.CrcProps
import LcdbModel.Props.CrcTablesOk
import LcdbModel.Props.FilterProps
import LcdbModel.Props.C15
import LcdbModel.Props.C04
namespace Lcdb.C11
end Lcdb.C11
