"""Run generated histories through harness/wl.c (real database) and lean tracecheck; collect problems."""
import concurrent.futures as cf, json, os, re, shutil, subprocess, time
import vlib, wl_gen
from vlib import Rng


def tracecheck_path():
    return os.path.join(vlib.LEAN, '.lake', 'build', 'bin', 'tracecheck')


def run_script(wl_bin, lines, timeout=600, env_extra=None):
    env = vlib.asan_env()
    if env_extra:
        env.update(env_extra)
    data = ''.join(l + '\n' for l in lines)
    try:
        p = subprocess.run([wl_bin], input=data, stdout=subprocess.PIPE, stderr=subprocess.PIPE, text=True, env=env, timeout=timeout)
        return p.returncode, p.stdout, p.stderr
    except subprocess.TimeoutExpired as e:
        return -999, (e.stdout or b'').decode(errors='replace') if isinstance(e.stdout, bytes) else (e.stdout or ''), 'TIMEOUT after %ds' % timeout


def run_tracecheck(transcript, timeout=600):
    p = subprocess.run([tracecheck_path()], input=transcript, stdout=subprocess.PIPE, stderr=subprocess.PIPE, text=True, timeout=timeout)
    out = p.stdout.strip().split('\n')
    problems = [l for l in out if l.startswith(('MISMATCH', 'VIOLATION', 'KNOWN'))]
    done = [l for l in out if l.startswith('done ')]
    stats = {}
    if done:
        for kv in done[-1].split()[1:]:
            k, v = kv.split('=')
            stats[k] = int(v)
    else:
        problems.append('MISMATCH[other] tracecheck produced no summary: rc=%d %s' % (p.returncode, p.stderr[-300:]))
    return problems, stats


def one_history(args):
    idx, seed, nops, wl_bin, family, journal = args
    rng = Rng(seed).fork('hist%d' % idx)
    d = vlib.scratch_dir('wl')
    dbdir = os.path.join(d, 'db')
    try:
        if callable(family):
            name, opts, lines = family(rng, dbdir, os.path.join(d, 'img'), nops)
        elif family is None:
            name, opts, lines = wl_gen.gen_history(rng, dbdir, nops)
        else:
            opts = rng.choice(wl_gen.opt_sets(rng, None))
            name = family
            lines = dict(wl_gen.FAMILIES)[family](rng, dbdir, opts, nops)
        if journal and (not lines or lines[0] != 'journal on'):
            lines = ['journal on'] + lines
        rc, out, err = run_script(wl_bin, lines, timeout=1800)
        problems = []
        if rc != 0:
            first = ''
            for l in err.split('\n'):
                if 'ERROR' in l or 'runtime error' in l or 'TIMEOUT' in l or 'Assertion' in l:
                    first = l.strip()
                    break
            problems.append('VIOLATION[fault] the implementation crashed, hung or was stopped by a sanitizer (rc=%d): %s' % (rc, first[:300]))
        p2, stats = run_tracecheck(out)
        problems += p2
        return {'idx': idx, 'family': name, 'opts': opts, 'lines': lines, 'problems': problems, 'stats': stats, 'transcript_len': len(out),
                'transcript': out if problems else None}
    finally:
        shutil.rmtree(d, ignore_errors=True)


def run_histories(chk, n, nops, tag_filter, label, family=None, seed_salt='', journal=False, oracle_tags=()):
    """tag_filter: set of problem tags (the text inside [...]) this property owns; others are ignored here
    (they belong to another property's check) except [other]/[fault], which always count."""
    wl_bin = vlib.build_harness('wl', 'asan', exclude=['db_impl.c'])
    base = Rng(chk.seed).fork(label + seed_salt).next()
    jobs = [(i, base + i, nops, wl_bin, family, journal) for i in range(n)]
    results = []
    with cf.ThreadPoolExecutor(vlib.NPROC) as ex:
        for r in ex.map(one_history, jobs):
            results.append(r)
    totals = {}
    mism = []
    viol = []
    for r in results:
        for k, v in r['stats'].items():
            if k in ('maxfiles', 'levelsused'):
                totals[k] = max(totals.get(k, 0), v)
            else:
                totals[k] = totals.get(k, 0) + v
        nontrivial = (r['stats'].get('flushes', 0) >= 1 and r['stats'].get('compactions', 0) + r['stats'].get('trivialmoves', 0) >= 1) or r['stats'].get('crashnonempty', 0) >= 5 or r['stats'].get('werr', 0) >= 1
        chk.note_case((label, r['family'], r['opts'], r['stats'].get('flushes', 0), r['stats'].get('compactions', 0), r['stats'].get('gets', 0), r['stats'].get('crashes', 0), r['transcript_len']), nontrivial)
        for p in r['problems']:
            if p.startswith('KNOWN'):
                chk.extra.setdefault('known_seen', set()).add(p.split()[1])
                continue
            m = re.match(r'(MISMATCH|VIOLATION)\[([^\]:]*)(?::([^\]]*))?\]', p)
            tag = m.group(2) if m else 'other'
            full = tag + (':' + m.group(3) if m and m.group(3) else '')
            if tag in ('other', 'fault', 'reopen') or tag in tag_filter or full in tag_filter:
                # oracle_tags: checks evaluated on the implementation's own reported state that ARE this property's statement
                (viol if p.startswith('VIOLATION') or tag in oracle_tags else mism).append((r, p))
    chk.extra.setdefault('history_totals', {})[label] = totals
    chk.extra['traces_validated_against_impl'] = chk.extra.get('traces_validated_against_impl', 0) + len(results)
    if results:
        r0 = results[0]
        chk.sample({'suite': label, 'family': r0['family'], 'opts': r0['opts'], 'script_head': r0['lines'][:12], 'stats': r0['stats']})
    for r, p in viol[:3]:
        chk.violation('%s: %s' % (label, p), {'suite': label, 'family': r['family'], 'opts': r['opts'], 'script': r['lines'], 'problem': p,
                                               'replay_cmd': 'feed "script" lines to the wl harness built by ./check, pipe its output to lean/.lake/build/bin/tracecheck'})
    detail = '%d histories; totals %s' % (len(results), totals)
    if mism:
        r, p = mism[0]
        detail += '; %d model/implementation mismatches; first: %s (family %s, opts %s)' % (len(mism), p[:400], r['family'], r['opts'])
        # keep the first disagreeing history for inspection
        os.makedirs(os.path.join(vlib.ROOT, 'replays'), exist_ok=True)
        with open(os.path.join(vlib.ROOT, 'replays', '%s-%s-mismatch.json' % (chk.pid, label)), 'w') as f:
            json.dump({'script': r['lines'], 'problems': r['problems'][:20]}, f, indent=1)
    chk.oblige('trace-validation:' + label, not mism, detail)
    return results, totals


def replay_script(wl_bin, lines):
    """re-run a stored script: the scratch directories it names are gone, so they are re-created (and removed again)"""
    import re, shutil
    roots = sorted(set(re.findall(r'(/[\w/.-]*lcdb-verif-[\w-]+)', ' '.join(lines))))
    for r in roots:
        shutil.rmtree(r, ignore_errors=True)
        os.makedirs(r, exist_ok=True)
    try:
        rc, out, err = run_script(wl_bin, lines)
        problems, stats = run_tracecheck(out)
    finally:
        for r in roots:
            shutil.rmtree(r, ignore_errors=True)
    return rc, out, err, problems, stats
