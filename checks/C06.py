"""C06 — Snapshots: trace validation of real histories against the Lsm model + theorems over the model."""
import wlcheck

PID = 'C06'
TAGS = set('snapget,snapiter,step,droploop,csnap'.split(','))
THEOREMS = [
    'Lcdb.C06.snapshot_view_stable',
    'Lcdb.C06.background_preserves_view',
    'Lcdb.C06.write_view',
    'Lcdb.C06.other_snapshots_irrelevant',
    'Lcdb.C06.compact_preserves_view',
    'Lcdb.C06.compact_preserves_view_above',
    'Lcdb.C06.step_preserves_noSeqTies',
    'Lcdb.C06.history_refines',
    'Lcdb.Compaction.mergeInputs_sorted_perm',
    'Lcdb.Compaction.mergeInputs_eq_mergedRun',
    'Lcdb.Compaction.inputIter_walks_mergeInputs',
    'Lcdb.Compaction.dropLoop_sublist',
    'Lcdb.Compaction.dropLoopPtr_eq_dropLoop',
    'Lcdb.Compaction.expectedOutput_eq_spec',
    'Lcdb.Compaction.dropLoop_sameAnswer',
    'Lcdb.Compaction.dropLoop_not_newer',
    'Lcdb.Compaction.expectedOutput_sameAnswer',
    'Lcdb.Compaction.expectedOutput_meets_contract',
    'Lcdb.Compaction.mechanism_stepOk',
    'Lcdb.Compaction.mechanism_preserves_view',
    'Lcdb.Compaction.dropLoop_not_safe_below_smallest',
]
IMPORTS = ['LcdbModel.Props.CompactionProps', 'LcdbModel.Props.C06']
TARGETS = ['LcdbModel.Props.CompactionProps', 'LcdbModel.Props.C06']


def concurrent(chk, tier):
    # snapshots taken while writes, flushes and compactions of other threads are in flight (deterministic scheduler): every
    # key read twice through one snapshot gives the same answer, and what it shows is the state after a whole prefix of the
    # writes (not a write that had only been published, not half a batch)
    import conccheck
    from vlib import Rng
    conccheck.conc_part(chk, tier, Rng(chk.seed).fork('C06conc'), {'snapshot', 'snapstable', 'scan'}, scale=0.4)


def run(tier):
    return wlcheck.run(PID, tier, TAGS, THEOREMS, IMPORTS, TARGETS + ['conccheck'], families=['snapshot-chain', 'tombstones', 'random'], extra=concurrent)


def replay(path):
    return wlcheck.replay(PID, path)
