"""C06 — Snapshots: trace validation of real histories against the Lsm model + theorems over the model."""
import wlcheck

PID = 'C06'
TAGS = set('snapget,snapiter,step'.split(','))
THEOREMS = [
    'Lcdb.C06.snapshot_view_stable',
    'Lcdb.C06.background_preserves_view',
    'Lcdb.C06.write_view',
    'Lcdb.C06.other_snapshots_irrelevant',
    'Lcdb.C06.compact_preserves_view',
    'Lcdb.C06.compact_preserves_view_above',
    'Lcdb.C06.step_preserves_noSeqTies',
    'Lcdb.C06.history_refines',
]
IMPORTS = ['LcdbModel.Props.C06']
TARGETS = ['LcdbModel.Props.C06']


def run(tier):
    return wlcheck.run(PID, tier, TAGS, THEOREMS, IMPORTS, TARGETS, families=['snapshot-chain', 'tombstones', 'random'])


def replay(path):
    return wlcheck.replay(PID, path)
