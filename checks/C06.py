"""C06 — Snapshots: trace validation of real histories against the Lsm model + theorems over the model."""
import wlcheck

PID = 'C06'
TAGS = set('snapget,snapiter,step'.split(','))
THEOREMS = []
IMPORTS = ['LcdbModel.Props.C06']
TARGETS = ['LcdbModel.Props.C06']


def run(tier):
    return wlcheck.run(PID, tier, TAGS, THEOREMS, IMPORTS, TARGETS, families=['snapshot-chain', 'tombstones', 'random'])


def replay(path):
    return wlcheck.replay(PID, path)
