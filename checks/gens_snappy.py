"""Request generators (with direct property oracles) for the Snappy slice (src/util/snappy.c).

Suites
  snappy-rt            srt <x>     encode then decode; oracle: response == ok <show_bytes(x)>
  snappy-enc           senc <x>    correspondence + oracle: compressed length <= snappy_encode_size bound
  snappy-encx          sencx <x>   full hex (<= 65536 bytes): oracle = independent Python decoder gives x back,
                                   and the stream only uses what the format allows
  snappy-dsize         sdsize <z>  oracle: independent varint32 parse + the 0x7fffffff limit
  snappy-dec-valid     sdec <z>    structure-aware valid streams using every element form (literal 0..59 and the
                                   60/61/62/63 forms, copy1, copy2, copy4, overlapping copies); oracle: ok <expected>
  snappy-dec-malformed sdec <z>    mutated valid streams / random bytes; oracle: the independent decoder's verdict
                                   (ok <bytes> exactly when the stream is valid, else fail); never `fault:`
Every random choice comes from the `rng` argument.
"""
import proto
from common import Case

DECODE_CAP = 67108864          # harness/u_snappy.h SNAPPY_DECODE_CAP, Drv.snappyDecodeCap
ENCX_CAP = 65536               # sencx prints full hex up to this many bytes

PERIODS = [1, 2, 3, 4, 5, 7, 8, 11, 12, 15, 16, 17, 59, 60, 61, 63, 64, 65, 67, 68, 255, 256, 257, 2047, 2048, 2049,
           4095, 4096, 4097, 65535, 65536, 65537]
LEN_EDGES = [0, 1, 2, 3, 4, 5, 11, 12, 13, 14, 15, 16, 17, 18, 19, 20, 31, 32, 33, 59, 60, 61, 62, 63, 64, 65, 66, 67, 68, 69,
             75, 76, 77, 127, 128, 129, 255, 256, 257, 258, 2047, 2048, 2049, 4095, 4096, 4097,
             16383, 16384, 16385, 65519, 65520, 65521, 65522, 65535, 65536, 65537, 65538, 65551, 65552, 65553, 65554,
             131071, 131072, 131073, 131088, 131089]
WORDS = [b'the', b'level', b'db', b'key', b'value', b'snappy', b'block', b'table', b'compaction', b'a', b'of', b'and',
         b'0000', b'user', b'\x00\x00\x00\x00', b'\x00\x00\x00', b'\xff\xff', b'abcabc', b'manifest', b'=', b':', b'-']


# ------------------------------------------------------------------ independent reference (format spec)
def py_varint(n):
    out = bytearray()
    while n >= 128:
        out.append((n & 127) | 128)
        n >>= 7
    out.append(n)
    return bytes(out)


def py_varint32_read(b):
    """returns (value, bytes consumed) or None; at most 5 bytes, result truncated to 32 bits"""
    v = 0
    for i in range(5):
        if i >= len(b):
            return None
        v |= (b[i] & 127) << (7 * i)
        if b[i] < 128:
            return v & 0xFFFFFFFF, i + 1
    return None


def py_snappy_decode(z, stats=None):
    """Independent Snappy block-format decoder written from the format description.
    returns the bytes, or None when the stream is invalid."""
    h = py_varint32_read(z)
    if h is None:
        return None
    n, i = h
    if n > 0x7fffffff:
        return None
    out = bytearray()
    L = len(z)
    while i < L:
        tag = z[i]
        kind = tag & 3
        if kind == 0:
            ln = tag >> 2
            i += 1
            if ln >= 60:
                k = ln - 59
                if i + k > L:
                    return None
                ln = int.from_bytes(z[i:i + k], 'little')
                i += k
            ln += 1
            if ln > L - i or len(out) + ln > n:
                return None
            out += z[i:i + ln]
            i += ln
            if stats is not None:
                stats['lit'] = stats.get('lit', 0) + 1
            continue
        if kind == 1:
            if i + 2 > L:
                return None
            ln = 4 + ((tag >> 2) & 7)
            off = ((tag >> 5) << 8) | z[i + 1]
            i += 2
        elif kind == 2:
            if i + 3 > L:
                return None
            ln = 1 + (tag >> 2)
            off = z[i + 1] | (z[i + 2] << 8)
            i += 3
        else:
            if i + 5 > L:
                return None
            ln = 1 + (tag >> 2)
            off = int.from_bytes(z[i + 1:i + 5], 'little')
            i += 5
        if off == 0 or off > len(out) or len(out) + ln > n:
            return None
        if stats is not None:
            stats['copy%d' % (1 if kind == 1 else 2 if kind == 2 else 4)] = stats.get('copy%d' % (1 if kind == 1 else 2 if kind == 2 else 4), 0) + 1
        if off >= ln:
            out += out[len(out) - off:len(out) - off + ln]
        else:
            for _ in range(ln):
                out.append(out[-off])
    if len(out) != n:
        return None
    return bytes(out)


def encode_size_bound(n):
    return 32 + n + n // 6


# ------------------------------------------------------------------ inputs for the encoder
def _pat(rng, n):
    """one '+'-free argument component of about n bytes, returns the argument string"""
    k = rng.below(12)
    if n == 0:
        return '-'
    if k < 2:
        return rng.bytes(n).hex()                                    # incompressible
    if k < 5:
        return '%%%d~%d~%d' % (rng.below(1 << 20), n, rng.choice(PERIODS))   # periodic
    if k < 6:
        return '%%%d~%d~%d' % (rng.below(1 << 20), n, rng.range(1, 70))
    if k < 7:
        return '=%02x~%d' % (rng.choice([0, 0, 0x61, 0xff, rng.below(256)]), n)   # run
    if k < 8:
        return '@%d~%d' % (rng.below(1 << 20), n)                    # arithmetic pattern (period 65536-ish structure)
    if k < 10:                                                       # text-like
        out = bytearray()
        while len(out) < n:
            out += rng.choice(WORDS)
            if rng.chance(2, 3):
                out += b' '
        return bytes(out[:n]).hex()
    if k < 11:                                                       # small alphabet
        alpha = rng.bytes(rng.range(1, 4))
        return bytes(alpha[rng.below(len(alpha))] for _ in range(n)).hex()
    # a random chunk repeated with a few random edits
    base = bytearray(rng.bytes(rng.range(1, 40)) * (n // 1 + 1))[:n]
    for _ in range(rng.below(4)):
        base[rng.below(n)] ^= 1 << rng.below(8)
    return bytes(base).hex()


def rand_len(rng, big=False):
    k = rng.below(20)
    if k < 5:
        return rng.below(80)
    if k < 9:
        return max(0, rng.choice(LEN_EDGES) + rng.range(-2, 2))
    if k < 14:
        return rng.below(3000)
    if k < 17:
        return rng.below(70000)
    if k < 19:
        return rng.range(65536 - 20, 65536 * 2 + 40)
    return rng.below(1048576 if big else 200000)


def rand_input_arg(rng, big=False):
    n = rand_len(rng, big)
    parts = rng.choice([1, 1, 1, 2, 2, 3, 5])
    if n < parts:
        parts = 1
    if parts == 1:
        return _pat(rng, n)
    cuts = sorted(rng.below(n + 1) for _ in range(parts - 1))
    sizes = [b - a for a, b in zip([0] + cuts, cuts + [n])]
    comps = [_pat(rng, s) for s in sizes if s > 0]
    # sometimes repeat an earlier component verbatim (long-range match, possibly across a block boundary)
    if comps and rng.chance(1, 3):
        comps.append(rng.choice(comps))
    return '+'.join(comps) if comps else '-'


def literal_boundary_args(rng):
    """inputs whose (final) literal has a length at the boundaries of the three literal-length forms of the format
    (n-1 < 60: in the tag; < 2^8: one extra byte; < 2^16: two extra bytes), alone and behind a compressible prefix"""
    out = []
    for L in (1, 59, 60, 61, 62, 255, 256, 257, 258, 259, 65535, 65536, 65537):
        out.append('@%d~%d' % (rng.below(1 << 30), L))
        out.append('%%%d~%d~%d+@%d~%d' % (rng.below(1 << 30), rng.range(300, 900), rng.range(3, 17), rng.below(1 << 30), L))
        out.append('=%02x~%d+@%d~%d' % (rng.below(256), rng.range(40, 400), rng.below(1 << 30), L))
    return out


def gen_snappy_enc(rng, n, big=False):
    cases = []
    fixed = literal_boundary_args(rng)
    for i in range(n + len(fixed)):
        arg = fixed[i] if i < len(fixed) else rand_input_arg(rng, big)
        x = proto.parse_bytes(arg)
        want = 'ok ' + proto.show_bytes(x)

        def rt_oracle(resp, want=want, ln=len(x)):
            return None if resp == want else 'snappy round trip of a %d-byte input gives %s, expected %s' % (ln, resp[:80], want[:80])
        cases.append(Case('snappy-rt', 'srt ' + arg, oracle=rt_oracle))

        def enc_oracle(resp, ln=len(x)):
            if resp.startswith('#'):
                zl = int(resp[1:].split(':')[0])
            elif resp == '-':
                zl = 0
            else:
                zl = len(resp) // 2
            if zl > encode_size_bound(ln):
                return 'compressed length %d exceeds snappy_encode_size bound %d for input length %d' % (zl, encode_size_bound(ln), ln)
            return None
        if i % 2 == 0:
            cases.append(Case('snappy-enc', 'senc ' + arg, oracle=enc_oracle))

        def encx_oracle(resp, x=x):
            if resp.startswith('#'):
                return None                      # digest only: covered by srt and by correspondence
            try:
                z = bytes.fromhex(resp) if resp != '-' else b''
            except ValueError:
                return 'unparsable response ' + resp[:60]
            if len(z) > encode_size_bound(len(x)):
                return 'compressed length %d exceeds the snappy_encode_size bound' % len(z)
            st = {}
            y = py_snappy_decode(z, st)
            if y is None:
                return 'encoder output is not a valid Snappy stream (independent decoder rejects it): ' + resp[:80]
            if y != x:
                return 'encoder output decodes (independent decoder) to different bytes (len %d vs %d)' % (len(y), len(x))
            if st.get('copy4'):
                return 'encoder emitted a copy4 element'
            return None
        cases.append(Case('snappy-encx', 'sencx ' + arg, oracle=encx_oracle))
    return cases


# ------------------------------------------------------------------ structure-aware compressed streams
def _lit_elem(rng, data, form=None):
    n = len(data) - 1
    if form is None:
        if n < 60 and rng.chance(9, 10):
            form = 0
        else:
            form = min(f for f in (1, 2, 3, 4) if n < (1 << (8 * f)))
            if rng.chance(1, 3):
                form = rng.range(form, 4)        # non-minimal length form (allowed by the format)
    if form == 0:
        return bytes([n << 2]) + data
    return bytes([(59 + form) << 2]) + n.to_bytes(form, 'little') + data


def _copy_elem(rng, off, ln):
    """one element for copy(off, ln) with 1 <= ln <= 64"""
    forms = []
    if 4 <= ln <= 11 and off < 2048:
        forms.append(1)
    if off < 65536:
        forms.append(2)
    forms.append(4)
    f = rng.choice(forms)
    if f == 1:
        return bytes([((off >> 8) << 5) | ((ln - 4) << 2) | 1, off & 255])
    if f == 2:
        return bytes([((ln - 1) << 2) | 2]) + off.to_bytes(2, 'little')
    return bytes([((ln - 1) << 2) | 3]) + off.to_bytes(4, 'little')


def rand_stream(rng, maxout=3000):
    """returns (elements: list of bytes, expected output bytes)"""
    out = bytearray()
    elems = []
    target = rng.choice([0, 1, rng.below(20), rng.below(300), rng.below(maxout)])
    while len(out) < target:
        if not out or rng.chance(2, 5):
            ln = rng.choice([1, 1, 2, rng.range(1, 60), rng.choice([59, 60, 61, 62, 255, 256, 257]), rng.range(1, 400)])
            if rng.chance(1, 40):
                ln = rng.choice([65535, 65536, 65537])
            data = rng.bytes(ln) if rng.chance(1, 2) else bytes([rng.below(3)]) * ln
            elems.append(_lit_elem(rng, data))
            out += data
        else:
            ln = rng.choice([1, 2, 3, 4, 5, 11, 12, 60, 63, 64, rng.range(1, 64)])
            k = rng.below(6)
            if k == 0:
                off = 1
            elif k == 1:
                off = len(out)
            elif k == 2:
                off = rng.range(1, min(len(out), ln))            # overlapping
            elif k == 3:
                off = rng.range(1, min(len(out), 2047))
            else:
                off = rng.range(1, len(out))
            elems.append(_copy_elem(rng, off, ln))
            for _ in range(ln):
                out.append(out[-off])
    return elems, bytes(out)


def _verdict_oracle(z):
    """the decoder accepts exactly the valid streams and returns their content"""
    h = py_varint32_read(z)
    y = py_snappy_decode(z)
    if h is not None and h[0] <= 0x7fffffff and h[0] > DECODE_CAP:
        want = 'toobig'
    elif y is None:
        want = 'fail'
    else:
        want = 'ok ' + proto.show_bytes(y)

    def orc(resp, want=want):
        return None if resp == want else 'snappy_decode gives %s, the format says %s' % (resp[:80], want[:80])
    return orc


def mutate_stream(rng, elems, out):
    """one malformed (or occasionally still valid) variant of header + elems"""
    hdr = py_varint(len(out))
    body = b''.join(elems)
    k = rng.below(13)
    if k == 0:                                   # bit flips
        z = bytearray(hdr + body)
        for _ in range(rng.range(1, 3)):
            if z:
                z[rng.below(len(z))] ^= 1 << rng.below(8)
        return bytes(z)
    if k == 1:                                   # truncation
        z = hdr + body
        return z[:rng.below(len(z) + 1)]
    if k == 2:                                   # declared length off by a little / a lot
        n = len(out)
        n2 = rng.choice([n + 1, max(0, n - 1), n * 2, 0, n + 64, rng.below(1 << 20), 0x7fffffff, 0x80000000, 0xffffffff,
                         DECODE_CAP, DECODE_CAP + 1, rng.below(1 << 32)])
        return py_varint(n2) + body
    if k == 3:                                   # non-canonical / over-long header varint
        n = len(out)
        v = bytearray(py_varint(n))
        pad = rng.range(1, 5)
        v[-1] |= 0x80
        v += bytes([0x80] * (pad - 1)) + bytes([rng.choice([0, 0, 0x10, 0x70])])
        return bytes(v) + body
    if k == 4 and elems:                         # offset of one copy element set to 0 / large
        es = list(elems)
        idx = [i for i, e in enumerate(es) if e[0] & 3]
        if idx:
            i = rng.choice(idx)
            e = bytearray(es[i])
            kind = e[0] & 3
            val = rng.choice([0, 0, 0xffffffff, len(out) + 1, len(out), 0x80000000, 0x7fffffff, 65535])
            if kind == 1:
                e[0] = (e[0] & 0x1f) | (((val >> 8) & 7) << 5)
                e[1] = val & 255
            elif kind == 2:
                e[1:3] = (val & 0xffff).to_bytes(2, 'little')
            else:
                e[1:5] = (val & 0xffffffff).to_bytes(4, 'little')
            es[i] = bytes(e)
        return hdr + b''.join(es)
    if k == 5:                                   # trailing garbage
        return hdr + body + rng.bytes(rng.range(1, 6))
    if k == 6 and elems:                         # drop / duplicate / swap elements
        es = list(elems)
        j = rng.below(len(es))
        c = rng.below(3)
        if c == 0:
            del es[j]
        elif c == 1:
            es.insert(j, es[j])
        else:
            i = rng.below(len(es))
            es[i], es[j] = es[j], es[i]
        return hdr + b''.join(es)
    if k == 7:                                   # a copy as the very first element
        return hdr + _copy_elem(rng, rng.range(1, 5), rng.range(1, 64)) + body
    if k == 8:                                   # literal whose length field overshoots (all four extended forms)
        form = rng.range(1, 4)
        n = rng.choice([0x7ffffffe, 0x7fffffff, 0xffffffff, 0xffffff, 0xffff, 0xff, len(out), len(out) + 1]) & ((1 << (8 * form)) - 1)
        e = bytes([(59 + form) << 2]) + n.to_bytes(form, 'little') + rng.bytes(rng.below(8))
        j = rng.below(len(elems) + 1)
        return hdr + b''.join(elems[:j]) + e + b''.join(elems[j:])
    if k == 9:                                   # length tag with missing length bytes at the very end
        return hdr + body + bytes([rng.choice([60, 61, 62, 63]) << 2]) + rng.bytes(rng.below(3))
    if k == 10:                                  # copy tag with missing offset bytes at the very end
        return hdr + body + bytes([(rng.below(64) << 2) | rng.range(1, 3)]) + rng.bytes(rng.below(2))
    if k == 11:                                  # still valid
        return hdr + body
    return rng.bytes(rng.below(40))              # random bytes


def gen_snappy_dec(rng, n):
    cases = []
    for _ in range(n):
        elems, out = rand_stream(rng)
        z = py_varint(len(out)) + b''.join(elems)
        cases.append(Case('snappy-dec-valid', 'sdec ' + proto.arg(z), oracle=_verdict_oracle(z)))
        for _ in range(2):
            m = mutate_stream(rng, elems, out)
            cases.append(Case('snappy-dec-malformed', 'sdec ' + proto.arg(m), oracle=_verdict_oracle(m)))
        m = mutate_stream(rng, elems, out)
        m = m[:rng.choice([len(m), 1, 2, 3, 4, 5, 6])]

        def ds_oracle(resp, m=m):
            h = py_varint32_read(m)
            want = 'fail' if h is None or h[0] > 0x7fffffff else 'ok %d' % h[0]
            return None if resp == want else 'snappy_decode_size gives %s, expected %s' % (resp, want)
        cases.append(Case('snappy-dsize', 'sdsize ' + proto.arg(m), oracle=ds_oracle))
    return cases


def gen_snappy_dsize(rng, n):
    cases = []
    for _ in range(n):
        k = rng.below(5)
        if k == 0:
            v = rng.choice([0, 1, 127, 128, 16383, 16384, 0x7ffffffe, 0x7fffffff, 0x80000000, 0xffffffff, 1 << 32, (1 << 35) - 1])
            b = py_varint(v) + rng.bytes(rng.below(3))
        elif k == 1:
            b = py_varint(rng.below(1 << rng.range(1, 34))) + rng.bytes(rng.below(3))
        elif k == 2:
            b = bytes([0x80 | rng.below(128) for _ in range(rng.below(7))]) + bytes([rng.below(128)]) + rng.bytes(rng.below(3))
        elif k == 3:
            b = bytes([0x80 | rng.below(128) for _ in range(rng.below(7))])
        else:
            b = rng.bytes(rng.below(8))

        def ds_oracle(resp, b=b):
            h = py_varint32_read(b)
            want = 'fail' if h is None or h[0] > 0x7fffffff else 'ok %d' % h[0]
            return None if resp == want else 'snappy_decode_size gives %s, expected %s' % (resp, want)
        cases.append(Case('snappy-dsize', 'sdsize ' + proto.arg(b), oracle=ds_oracle))
    return cases


def gen_snappy_encsize(rng, n):
    cases = []
    for _ in range(n):
        v = rng.choice([0, 1, 5, 6, 7, 65536, 0x6db6db50, 0x6db6db6d, 0x6db6db6e, 0x6db6db6f, 0x7fffffff, 0x80000000, 0xffffffff,
                        rng.below(1 << 31), rng.below(1 << 33), rng.below(1 << 16)])

        def orc(resp, v=v):
            want = 'fail' if v > 0x7fffffff or encode_size_bound(v) > 0x7fffffff else 'ok %d' % encode_size_bound(v)
            return None if resp == want else 'snappy_encode_size(%d) gives %s, expected %s' % (v, resp, want)
        cases.append(Case('snappy-encsize', 'sencsize %d' % v, oracle=orc))
    return cases


def gen_snappy(rng, n, big=False):
    """about 3.6*n cases: n/3 encoder inputs (srt + sencx + every other senc), the rest decoder streams"""
    ne = max(1, n // 3)
    nd = max(1, n // 5)
    cases = gen_snappy_enc(rng, ne, big)
    cases += gen_snappy_dec(rng, nd)
    cases += gen_snappy_dsize(rng, max(1, n // 10))
    cases += gen_snappy_encsize(rng, max(1, n // 20))
    return cases
