#!/usr/bin/env python3
"""mutation sanity check: apply one seeded bug to a scratch copy of /repo and run the differential check"""
import os, shutil, subprocess, sys
W = __import__('os').path.dirname(__import__('os').path.dirname(__import__('os').path.abspath(__file__)))
MUTS = [
 ('dbiter_prev: re-scan stops after its first step (EQUIVALENT mutant expected)', 'src/db_iter.c',
  "      if (ldb_compare(iter->ucmp, &ukey, &iter->saved_key) < 0)\n        break;\n    }\n",
  "      if (ldb_compare(iter->ucmp, &ukey, &iter->saved_key) < 0)\n        break;\n      break;\n    }\n"),
 ('find_largest: forward iteration order', 'src/table/merger.c',
  "  for (i = mi->n - 1; i >= 0; i--) {", "  for (i = 0; i < mi->n; i++) {"),
 ('find_next_user_entry: sequence < instead of <=', 'src/db_iter.c',
  "    if (parse_key(iter, &ikey) && ikey.sequence <= iter->sequence) {\n      switch",
  "    if (parse_key(iter, &ikey) && ikey.sequence < iter->sequence) {\n      switch"),
 ('find_prev_user_entry: sequence < instead of <=', 'src/db_iter.c',
  "      if (parse_key(iter, &ikey) && ikey.sequence <= iter->sequence) {\n        if ((value_type",
  "      if (parse_key(iter, &ikey) && ikey.sequence < iter->sequence) {\n        if ((value_type"),
 ('merger next: drop the step over an equal key', 'src/table/merger.c',
  "          if (ldb_compare(mi->comparator, &mi_key, &child_key) == 0)\n            ldb_wrapiter_next(child);",
  "          if (0 && ldb_compare(mi->comparator, &mi_key, &child_key) == 0)\n            ldb_wrapiter_next(child);"),
 ('merger prev: no last() for exhausted child', 'src/table/merger.c',
  "          /* Child has no entries >= key(). Position at last entry. */\n          ldb_wrapiter_last(child);",
  "          /* Child has no entries >= key(). Position at last entry. */\n          ;"),
 ('dbiter_next: reverse->forward never calls first', 'src/db_iter.c',
  "    if (!ldb_iter_valid(iter->iter))\n      ldb_iter_first(iter->iter);\n    else\n      ldb_iter_next(iter->iter);",
  "    if (!ldb_iter_valid(iter->iter))\n      ;\n    else\n      ldb_iter_next(iter->iter);"),
 ('find_next_user_entry: hidden test < instead of <=', 'src/db_iter.c',
  "ldb_compare(iter->ucmp, &ikey.user_key, skip) <= 0", "ldb_compare(iter->ucmp, &ikey.user_key, skip) < 0"),
 ('find_prev_user_entry: break test <= instead of <', 'src/db_iter.c',
  "            ldb_compare(iter->ucmp, &ikey.user_key, &iter->saved_key) < 0) {",
  "            ldb_compare(iter->ucmp, &ikey.user_key, &iter->saved_key) <= 0) {"),
 ('dbiter_seek: deletion type in the seek key', 'src/db_iter.c',
  "ldb_pkey_init(&pkey, target, iter->sequence, LDB_VALTYPE_SEEK);", "ldb_pkey_init(&pkey, target, iter->sequence, LDB_TYPE_DELETION);"),
 ('find_smallest: <= instead of <', 'src/table/merger.c',
  "        if (ldb_compare(mi->comparator, &child_key, &smallest_key) < 0)", "        if (ldb_compare(mi->comparator, &child_key, &smallest_key) <= 0)"),
 ('merger status: last non-OK child instead of first', 'src/table/merger.c',
  "    if ((rc = ldb_wrapiter_status(&mi->children[i])))\n      break;", "    { int r2 = ldb_wrapiter_status(&mi->children[i]); if (r2) rc = r2; }"),
 ('merger next: direction never reset to forward', 'src/table/merger.c',
  "    mi->direction = LDB_FORWARD;\n  }\n\n  ldb_wrapiter_next(mi->current);", "  }\n\n  ldb_wrapiter_next(mi->current);"),
 ('merger prev: non-current children not re-positioned', 'src/table/merger.c',
  "  if (mi->direction != LDB_REVERSE) {", "  if (0 && mi->direction != LDB_REVERSE) {"),
 ('find_prev_user_entry: deletion does not clear saved_key', 'src/db_iter.c',
  "        if (value_type == LDB_TYPE_DELETION) {\n          ldb_buffer_reset(&iter->saved_key);\n          clear_saved_value(iter);\n        } else {",
  "        if (value_type == LDB_TYPE_DELETION) {\n          ;\n        } else {"),
 ('find_next_user_entry: deletion does not set skipping', 'src/db_iter.c',
  "          ldb_buffer_copy(skip, &ikey.user_key);\n          skipping = 1;", "          ldb_buffer_copy(skip, &ikey.user_key);"),
 ('seek_le: >= instead of >', 'src/table/iterator.c',
  "    if (ldb_iter_compare(iter, target) > 0)\n      iter->table->prev(iter->ptr);", "    if (ldb_iter_compare(iter, target) >= 0)\n      iter->table->prev(iter->ptr);"),
 ('dbiter_prev: no step back at all (re-scan loop never entered)', 'src/db_iter.c',
  "    for (;;) {", "    for (;0;) {"),
 ('dbiter_prev: direction not switched to reverse', 'src/db_iter.c',
  "    iter->direction = LDB_REVERSE;\n  }\n\n  find_prev_user_entry(iter);", "  }\n\n  find_prev_user_entry(iter);"),
 ('find_prev_user_entry: value_type starts as VALUE', 'src/db_iter.c',
  "  ldb_valtype_t value_type = LDB_TYPE_DELETION;", "  ldb_valtype_t value_type = LDB_TYPE_VALUE;"),
 ('dbiter_last: direction stays as it was', 'src/db_iter.c',
  "  iter->direction = LDB_REVERSE;\n\n  clear_saved_value(iter);\n\n  ldb_iter_last(iter->iter);", "  clear_saved_value(iter);\n\n  ldb_iter_last(iter->iter);"),
 ('dbiter_first: direction stays as it was', 'src/db_iter.c',
  "  iter->direction = LDB_FORWARD;\n\n  clear_saved_value(iter);\n\n  ldb_iter_first(iter->iter);", "  clear_saved_value(iter);\n\n  ldb_iter_first(iter->iter);"),
 ('merger seek: find_largest instead of find_smallest', 'src/table/merger.c',
  "    ldb_wrapiter_seek(&mi->children[i], target);\n\n  ldb_mergeiter_find_smallest(mi);", "    ldb_wrapiter_seek(&mi->children[i], target);\n\n  ldb_mergeiter_find_largest(mi);"),
 ('merger last: direction left forward', 'src/table/merger.c',
  "  ldb_mergeiter_find_largest(mi);\n\n  mi->direction = LDB_REVERSE;\n}\n\nstatic void\nldb_mergeiter_seek", "  ldb_mergeiter_find_largest(mi);\n}\n\nstatic void\nldb_mergeiter_seek"),
 ('find_next_user_entry: saved_key not cleared on success (value() of reverse uses it?)', 'src/db_iter.c',
  "            iter->valid = 1;\n            ldb_buffer_reset(&iter->saved_key);\n            return;", "            iter->valid = 1;\n            return;"),
 ('seek_gt: next when key > target too', 'src/table/iterator.c',
  "    if (ldb_iter_compare(iter, target) == 0)\n      iter->table->next(iter->ptr);", "    if (ldb_iter_compare(iter, target) >= 0)\n      iter->table->next(iter->ptr);"),
]
def main():
    which = [int(x) for x in sys.argv[1:]] or range(len(MUTS))
    for i in which:
        name, rel, old, new = MUTS[i]
        d = __import__('tempfile').mkdtemp(prefix='iterstack-mut%d-' % i, dir=__import__('os').environ.get('VERIF_SCRATCH', '/var/tmp'))
        shutil.rmtree(d, ignore_errors=True)
        os.makedirs(d)
        shutil.copytree('/repo/src', d + '/src'); shutil.copytree('/repo/include', d + '/include')
        p = os.path.join(d, rel)
        s = open(p).read()
        if s.count(old) != 1:
            print('MUT %d %s: pattern occurs %d times' % (i, name, s.count(old))); continue
        open(p, 'w').write(s.replace(old, new))
        env = dict(os.environ, VERIF_REPO=d)
        r = subprocess.run(['python3', W + '/checks/iterstack_quick.py', '1', '1500'], env=env, stdout=subprocess.PIPE, stderr=subprocess.STDOUT, text=True)
        last = [l for l in r.stdout.split('\n') if l.startswith('seed')]
        summ = last[0] if last else r.stdout[-300:]
        import re
        m = re.search(r'disagreements (\d+); oracle violations (\d+); C faults (\d+)', summ)
        det = 'DETECTED' if (r.returncode != 0) else 'NOT DETECTED'
        print('MUT %2d %-62s %s  %s' % (i, name, det, m.group(0) if m else summ[:200]))
        shutil.rmtree(d, ignore_errors=True)
main()
