"""C19 — repair recovers all surviving data."""
import vlib, wlcheck, wl_run
from common import lean_stage
from vlib import Check

PID = 'C19'
TAGS = {'repair', 'get', 'iter', 'recover', 'inv', 'step', 'layout', 'mem'}
THEOREMS = [
    'Lcdb.C19.repair_entries', 'Lcdb.C19.repair_view_eq', 'Lcdb.C19.repair_iter_newest', 'Lcdb.C19.repair_iter_cursor', 'Lcdb.C19.repair_counters',
    'Lcdb.C19.write_after_repair_newer', 'Lcdb.C19.write_after_repair_view', 'Lcdb.C19.repair_inv_of_agreement', 'Lcdb.C19.repair_get_newest_partial',
    'Lcdb.C19.repair_get_stale_witness',
]
IMPORTS = ['LcdbModel.Props.C19']
TARGETS = ['LcdbModel.Props.C19']


def run(tier):
    chk = Check(PID, tier)
    lean_stage(chk, THEOREMS, IMPORTS, TARGETS + ['tracecheck'])
    n, nops = (24, 25) if tier == 'quick' else (600, 60)
    chk.rules.append('histories that make file numbering disagree with data age (flushes, deeper-level manual compactions that renumber old data, newer flushes above, live logs, '
                     'tombstones), then MANIFEST/CURRENT removed, CURRENT removed, MANIFEST cut in half or nothing removed; ldb_repair + reopen; the repaired state is dumped and lean tracecheck checks: '
                     'no entry lost or invented, counters above everything on disk, iterator = newest per key, point lookups = model lookup on the repaired state and = newest per key; '
                     'follow-up writes win and persist; non-trivial = history with >= 1 flush and >= 1 compaction')
    wl_run.run_histories(chk, n, nops, TAGS, 'repair-histories', family='repair')
    probe(chk)
    known = vlib.load_findings().get('known', [])
    seen = chk.extra.pop('known_seen', set())
    for f in known:
        if f.get('property') == PID and f.get('signature') in seen:
            chk.known_finding(f['text'])
    unlisted = [s for s in seen if not any(f.get('property') == PID and f.get('signature') == s for f in known)]
    for s in unlisted:
        chk.violation('tracecheck reported known-finding signature %s that is not listed in known_findings.json' % s, {'signature': s})
    return chk.finish()


def probe(chk):
    """the F3 witness, replayed on every run: k=v1 flushed deep, k=v2 flushed above it, the deep file rewritten under a
    higher number by a manual compaction, metadata removed, repair, reopen, get(k) and a scan"""
    import os, shutil
    wl_bin = vlib.build_harness('wl', 'asan', exclude=['db_impl.c'])
    d = vlib.scratch_dir('f3')
    db = os.path.join(d, 'db')
    lines = ['open %s wbuf=65536' % db, 'put 6b31 7631', 'put 6b30 @1~100', 'flushmem', 'put 6b31 7632', 'flushmem', 'compact 2 * *', 'get 6b31', 'close',
             'repair 0', 'open %s wbuf=65536' % db, 'dumpall', 'get 6b31', 'get 6b30', 'iter - F,N,N', 'put 6b31 7633', 'get 6b31', 'close']
    rc, out, err = wl_run.run_script(wl_bin, lines)
    problems, stats = wl_run.run_tracecheck(out)
    shutil.rmtree(d, ignore_errors=True)
    chk.note_case(('f3-probe', stats.get('repairs', 0), stats.get('gets', 0)), True)
    bad = [p for p in problems if not p.startswith('KNOWN')]
    if rc != 0 or bad:
        chk.violation('F3 witness history: %s' % (bad[0] if bad else 'harness rc=%d' % rc), {'script': lines, 'problems': problems[:5]})
    if any(p.startswith('KNOWN F3') for p in problems):
        chk.extra.setdefault('known_seen', set()).add('F3')
    chk.sample({'suite': 'f3-probe', 'script': lines, 'tracecheck': problems[:3]})


def replay(path):
    return wlcheck.replay(PID, path)
