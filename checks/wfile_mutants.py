#!/usr/bin/env python3
"""Mutation sanity check of the wfile slice: small plausible mutations of the C code in a scratch copy of /repo
(VERIF_REPO), each run through checks/wfile_quick.py.  usage: wfile_mutants.py [indices...]"""
import os, re, shutil, subprocess, sys, tempfile
W = os.path.dirname(os.path.dirname(os.path.abspath(__file__)))
ENVH = 'src/util/env_unix_impl.h'
MUTS = [
 ('flush keeps pos when the write failed', ENVH,
  "  int rc = ldb_wfile_write(file, file->buf, file->pos);\n  file->pos = 0;\n  return rc;",
  "  int rc = ldb_wfile_write(file, file->buf, file->pos);\n  if (rc == LDB_OK)\n    file->pos = 0;\n  return rc;"),
 ('sync0: fsync before flush', ENVH,
  "  if ((rc = ldb_wfile_flush(file)))\n    return rc;\n\n  if (ldb_fsync(file->fd) != 0)\n    return ldb_system_error();\n\n  return LDB_OK;",
  "  if (ldb_fsync(file->fd) != 0)\n    return ldb_system_error();\n\n  if ((rc = ldb_wfile_flush(file)))\n    return rc;\n\n  return LDB_OK;"),
 ('append0: direct-write threshold <=', ENVH,
  "  if (write_size < LDB_WRITE_BUFFER) {", "  if (write_size <= LDB_WRITE_BUFFER) {"),
 ('ldb_write: pointer not advanced after a short write', ENVH,
  "    buf += nwrite;\n    len -= nwrite;\n    cnt += nwrite;\n  }\n\n  return cnt;\n}\n\nstatic int\nldb_fsync",
  "    len -= nwrite;\n    cnt += nwrite;\n  }\n\n  return cnt;\n}\n\nstatic int\nldb_fsync"),
 ('set_current_file: rename before the temp file is synced (should_sync = 0)', 'src/filename.c',
  "  rc = ldb_write_file(tmp, &data, 1);", "  rc = ldb_write_file(tmp, &data, 0);"),
 ('write_file: file not removed on error', 'src/util/env.c',
  "  if (rc != LDB_OK)\n    ldb_remove_file(fname);\n\n  return rc;\n}\n\nint\nldb_read_file", "  return rc;\n}\n\nint\nldb_read_file"),
 ('ldb_write: EINTR not retried', ENVH,
  "      nwrite = write(fd, buf, max);\n    } while (nwrite < 0 && errno == EINTR);", "      nwrite = write(fd, buf, max);\n    } while (0);"),
 ('sync0: directory not synced for MANIFEST files', ENVH,
  "  if ((rc = ldb_wfile_sync_dir(file)))\n    return rc;\n\n  if ((rc = ldb_wfile_flush(file)))", "  if ((rc = ldb_wfile_flush(file)))"),
 ('wfile_close: error of close(2) dropped', ENVH,
  "  if (close(file->fd) != 0 && rc == LDB_OK)\n    rc = ldb_system_error();", "  close(file->fd);"),
 ('emit_physical_record: no flush after the payload', 'src/log_writer.c',
  "      if (rc == LDB_OK)\n        rc = ldb_wfile_flush(lw->file);", "      (void)0;"),
 ('set_current_file: no directory fsync after the rename', 'src/filename.c',
  "    if (rc == LDB_OK)\n      ldb_sync_dir(dbname);", "    (void)0;"),
 ('append0: copies one byte less than fits', ENVH,
  "  copy_size = LDB_MIN(write_size, LDB_WRITE_BUFFER - file->pos);", "  copy_size = LDB_MIN(write_size, LDB_WRITE_BUFFER - file->pos);\n  if (copy_size > 1 && copy_size < write_size) copy_size--;"),
]


def main():
    which = [int(x) for x in sys.argv[1:]] or range(len(MUTS))
    for i in which:
        name, rel, old, new = MUTS[i]
        d = tempfile.mkdtemp(prefix='wfile-mut%d-' % i, dir=os.environ.get('VERIF_SCRATCH', '/var/tmp'))
        shutil.rmtree(d, ignore_errors=True)
        os.makedirs(d)
        shutil.copytree('/repo/src', d + '/src'); shutil.copytree('/repo/include', d + '/include')
        p = os.path.join(d, rel)
        s = open(p).read()
        if s.count(old) != 1:
            print('MUT %d %s: pattern occurs %d times' % (i, name, s.count(old))); shutil.rmtree(d, ignore_errors=True); continue
        open(p, 'w').write(s.replace(old, new))
        env = dict(os.environ, VERIF_REPO=d)
        r = subprocess.run(['python3', W + '/checks/wfile_quick.py', '1', '1200'], env=env, stdout=subprocess.PIPE, stderr=subprocess.STDOUT, text=True)
        last = [l for l in r.stdout.split('\n') if l.startswith('seed')]
        summ = last[0] if last else r.stdout[-300:]
        m = re.search(r'disagreements (\d+).*?oracle violations (\d+); C faults (\d+)', summ)
        det = 'DETECTED' if (r.returncode != 0) else 'NOT DETECTED'
        print('MUT %2d %-70s %s  %s' % (i, name, det, m.group(0) if m else summ[:200]), flush=True)
        shutil.rmtree(d, ignore_errors=True)


main()
