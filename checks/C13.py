"""C13 — Files: trace validation of real histories against the Lsm model + theorems over the model."""
import wlcheck

PID = 'C13'
TAGS = set('files,layout,liveiter,conforms,conformsdel'.split(','))
THEOREMS = [
    'Lcdb.C13.never_delete_live',
    'Lcdb.C13.never_delete_needed_log',
    'Lcdb.C13.never_delete_current_manifest',
    'Lcdb.C13.never_delete_fixed',
    'Lcdb.C13.never_delete_foreign',
    'Lcdb.C13.pending_protects',
    'Lcdb.C13.bg_error_suspends',
    'Lcdb.C13.no_garbage',
    'Lcdb.C13.no_garbage_owned',
    'Lcdb.C13.removeObsolete_idempotent',
    'Lcdb.C13.numbers_fresh',
    'Lcdb.C13.new_numbers_strictly_increasing',
    'Lcdb.C13.disciplined_numbers_fresh',
    'Lcdb.C13.handed_out_twice_needs_reuse',
    'Lcdb.C13.mark_above',
]
IMPORTS = ['LcdbModel.Props.C13']
TARGETS = ['LcdbModel.Props.C13']


def run(tier):
    return wlcheck.run(PID, tier, TAGS, THEOREMS, IMPORTS, TARGETS, journal=True)


def replay(path):
    return wlcheck.replay(PID, path)
