"""C13 — Files: trace validation of real histories against the Lsm model + theorems over the model."""
import wlcheck, wl_run, crash_gen

PID = 'C13'
TAGS = set('files,layout,liveiter,conforms,conformsdel'.split(','))
THEOREMS = [
    'Lcdb.C13.never_delete_live',
    'Lcdb.C13.never_delete_needed_log',
    'Lcdb.C13.never_delete_current_manifest',
    'Lcdb.C13.never_delete_fixed',
    'Lcdb.C13.never_delete_foreign',
    'Lcdb.C13.pending_protects',
    'Lcdb.C13.bg_error_suspends',
    'Lcdb.C13.no_garbage',
    'Lcdb.C13.no_garbage_owned',
    'Lcdb.C13.removeObsolete_idempotent',
    'Lcdb.C13.numbers_fresh',
    'Lcdb.C13.new_numbers_strictly_increasing',
    'Lcdb.C13.disciplined_numbers_fresh',
    'Lcdb.C13.handed_out_twice_needs_reuse',
    'Lcdb.C13.mark_above',
]
IMPORTS = ['LcdbModel.Props.C13']
TARGETS = ['LcdbModel.Props.C13']


def overlap(chk, tier):
    # garbage collection racing with the foreground: the writer switches logs while the background thread is inside
    # ldb_versions_apply (slow MANIFEST syncs); every unlink is judged by the Disk monitor (obligation O3), and kill images
    # taken along the way must still recover every acknowledged write
    n, nops, pts = (6, 25, 8) if tier == 'quick' else (60, 80, 60)
    fam = lambda rng, db, img, nops_: crash_gen.history(rng, db, img, nops_, '0', False, pts, force_mode=3)
    chk.rules.append('overlap histories: bursts of writes with the background thread held inside ldb_versions_apply (6 ms per MANIFEST fsync), so that log switches '
                     'happen while a flush/compaction result is being installed; journal judged by Disk.Mon (O3: no needed log/table/MANIFEST unlinked) and kill images recovered')
    wl_run.run_histories(chk, n, nops, TAGS | {'crashkill', 'crashopen'}, 'overlap-histories', family=fam)
    # garbage collection after a failed flush / compaction install must not remove what the MANIFEST on disk may name
    import crashcheck
    # ... nor, after a failed MANIFEST roll-over at open, the MANIFEST that CURRENT already names
    crashcheck.window_faults(chk, tier, ['flush', 'compact', 'reopen'], tags={'faultreopen', 'crashopen', 'crashkill'}, label='gc-after-failure')


def run(tier):
    return wlcheck.run(PID, tier, TAGS, THEOREMS, IMPORTS, TARGETS, journal=True, extra=overlap)


def replay(path):
    return wlcheck.replay(PID, path)
