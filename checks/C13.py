"""C13 — Files: trace validation of real histories against the Lsm model + theorems over the model."""
import wlcheck

PID = 'C13'
TAGS = set('files,layout'.split(','))
THEOREMS = []
IMPORTS = ['LcdbModel.Props.C13']
TARGETS = ['LcdbModel.Props.C13']


def run(tier):
    return wlcheck.run(PID, tier, TAGS, THEOREMS, IMPORTS, TARGETS)


def replay(path):
    return wlcheck.replay(PID, path)
