"""C15 — write-ahead-log framing is exact, standard and torn-tail tolerant."""
import os
import vlib, proto
from common import Case, lean_stage, run_cases, load_corpus
from vlib import Check, Rng

PID = 'C15'
BLOCK = 32768
HDR = 7

THEOREMS = [
    'Lcdb.mask_unmask', 'Lcdb.unmask_mask', 'Lcdb.crcByteTab_eq_spec', 'Lcdb.crcExtendTab_eq',
    'Lcdb.crc32c_check_123456789', 'Lcdb.crc32c_check_zeros32', 'Lcdb.crc32c_check_ones32',
    'Lcdb.crc_detects_single_byte', 'Lcdb.crcExtend_append',
    'Lcdb.ConstsOk.logBlockSize_ok', 'Lcdb.ConstsOk.logHeaderSize_ok', 'Lcdb.ConstsOk.recTypes_ok', 'Lcdb.ConstsOk.crcMask_ok',
    'Lcdb.CrcTablesOk.byteExtTable_ok', 'Lcdb.CrcTablesOk.strideTables_ok',
    'Lcdb.C15.write_compositional', 'Lcdb.C15.write_reuse', 'Lcdb.C15.read_write', 'Lcdb.C15.read_truncated', 'Lcdb.C15.read_sound', 'Lcdb.C15.addRecord_offset', 'Lcdb.C15.blockOffset_le',
]
IMPORTS = ['LcdbModel.Props.C15']
TARGETS = ['LcdbModel.Props.C15']


def layout(lens, off0=0):
    """independent arithmetic of the log format: returns (total bytes, [end offset of each record],
    [(header offset, payload length) of each physical record]) for records appended at file offset off0"""
    pos = off0
    ends = []
    phys = []
    for n in lens:
        left = n
        first = True
        while True:
            leftover = BLOCK - (pos % BLOCK)
            if leftover < HDR:
                pos += leftover
            avail = BLOCK - (pos % BLOCK) - HDR
            frag = min(left, avail)
            last = (left - frag == 0)
            typ = 1 if (first and last) else (2 if first else (4 if last else 3))     # FULL / FIRST / LAST / MIDDLE
            phys.append((pos, frag, typ))
            pos += HDR + frag
            left -= frag
            first = False
            if left == 0:
                break
        ends.append(pos)
    return pos, ends, phys


def rec_arg(rng, n):
    k = rng.below(10)
    if n == 0:
        return '-'
    if k < 6:
        return '@%d~%d' % (rng.below(1 << 30), n)
    if k < 8:
        return '=%02x~%d' % (rng.below(256), n)
    return '%%%d~%d~%d' % (rng.below(1 << 30), n, rng.range(1, 64))


def gen(tier, rng):
    cases = []
    big = tier == 'thorough'
    # --- crc: all lengths 0..N with pattern data, several initial values; the C side runs generic, sse4.2 and dispatch at 8 alignments
    for n in list(range(0, 300 if not big else 4097)):
        cases.append(Case('crc', 'crc %d @%d~%d' % (rng.choice([0, 1, 0xFFFFFFFF, rng.below(1 << 32)]), rng.below(1 << 30), n)))
    for _ in range(40 if not big else 400):
        cases.append(Case('crc', 'crc %d @%d~%d' % (rng.below(1 << 32), rng.below(1 << 30), rng.range(300, 70000 if not big else 300000))))
    cases.append(Case('crc', 'crc 0 313233343536373839', oracle=lambda r: None if r == str(0xE3069283) else 'CRC-32C check value of "123456789" is %s, not 0xE3069283' % r))
    cases.append(Case('crc', 'crc 0 =00~32', oracle=lambda r: None if r == str(0x8A9136AA) else 'CRC-32C of 32 zero bytes is %s, not 0x8A9136AA' % r))
    cases.append(Case('crc', 'crc 0 =ff~32', oracle=lambda r: None if r == str(0x62A8AB43) else 'CRC-32C of 32 0xFF bytes is %s, not 0x62A8AB43' % r))
    for _ in range(100 if not big else 2000):
        v = rng.choice([0, 1, 0xFFFFFFFF, 0x80000000, rng.below(1 << 32)])
        cases.append(Case('mask', 'mask %d' % v))
    # --- writer bytes: the model is the independently written encoder, so a difference is itself a violation of the property
    def wr_oracle_factory(req):
        return None
    lens_sets = []
    edge = []
    for k in (1, 2, 3):
        for d in range(-9, 10):
            edge.append(k * (BLOCK - HDR) + d)
            edge.append(k * BLOCK + d)
    edge = sorted(set(x for x in edge if x >= 0))
    for n in (edge if big else rng_sample(rng, edge, 40)):
        for off in ([0, 1, 6, 7, BLOCK - 8, BLOCK - 7, BLOCK - 6, BLOCK - 1] if big else [rng.choice([0, 1, 7, BLOCK - 8, BLOCK - 7, BLOCK - 6, BLOCK - 1, rng.below(BLOCK)])]):
            lens_sets.append((off, [n]))
    for n in range(0, 40):
        lens_sets.append((rng.below(BLOCK), [n]))
    for _ in range(60 if not big else 1500):
        cnt = rng.range(1, 12)
        lens = []
        for _ in range(cnt):
            k = rng.below(10)
            if k < 4:
                lens.append(rng.below(200))
            elif k < 7:
                lens.append(rng.below(40000))
            elif k < 9:
                lens.append(rng.choice(edge))
            else:
                lens.append(rng.below(120000 if not big else 1 << 20))
        lens_sets.append((rng.choice([0, 0, 0, rng.below(BLOCK), rng.below(1 << 22), BLOCK - rng.below(8)]), lens))
    if big:
        # every record length 0..3*32768+16 once, at a rotating set of block offsets
        offs = [0, 1, 6, 7, 100, BLOCK - 8, BLOCK - 7, BLOCK - 6, BLOCK - 1, 12345, 20000, 32000]
        for n in range(0, 3 * BLOCK + 17):
            lens_sets.append((offs[n % len(offs)], [n]))
    for off, lens in lens_sets:
        recs = ','.join(rec_arg(rng, n) for n in lens)
        cases.append(Case('logw', 'logw %d %s' % (off, recs), meta={'lens': lens, 'off': off}))
    # --- reader on valid logs: round trip, every/ sampled truncation offsets, alterations
    for _ in range(25 if not big else 300):
        cnt = rng.range(1, 8)
        lens = [rng.choice([0, rng.below(60), rng.below(3000), rng.below(70000), rng.choice(edge)]) for _ in range(cnt)]
        args = [rec_arg(rng, n) for n in lens]
        recs = [proto.parse_bytes(a) for a in args]
        total, ends, phys = layout(lens)
        shown = ['r:' + proto.show_bytes(r) for r in recs]
        recstr = ','.join(args)

        def rt_oracle(resp, total=total, shown=shown):
            exp = ('%d ' % total) + ' '.join(shown)
            return None if resp == exp else 'records written then read back differ: expected %s got %s' % (exp[:200], resp[:200])
        cases.append(Case('log-roundtrip', 'logwr 1 %s .' % recstr, oracle=rt_oracle, meta={'lens': lens}))
        # truncations
        cuts = set()
        for e in ends:
            for d in (-1, 0, 1):
                cuts.add(e + d)
        for (h, fl, _t) in phys:
            for d in (0, 1, 6, 7, 8):
                cuts.add(h + d)
        cuts = [c for c in cuts if 0 <= c <= total]
        ncut = 30 if not big else 120
        chosen = rng_sample(rng, sorted(cuts), ncut // 2) + [rng.below(total + 1) for _ in range(ncut // 2)]
        for n in chosen:
            def tr_oracle(resp, n=n, ends=ends, shown=shown, total=total):
                k = sum(1 for e in ends if e <= n)
                exp = ('%d' % min(n, total)) + ''.join(' ' + s for s in shown[:k])
                exp2 = exp if k else exp + ' '
                return None if resp in (exp, exp2) else 'log cut at byte %d: expected exactly the %d records wholly before the cut and no reported drop; got %s' % (n, k, resp[:200])
            cases.append(Case('log-truncate', 'logwr 1 %s t:%d' % (recstr, n), oracle=tr_oracle, meta={'lens': lens, 'cut': n}))
        # alterations
        for _ in range(30 if not big else 100):
            kind = rng.below(10)
            h, fl, _t = rng.choice(phys)
            if kind < 3:
                off = h + rng.below(HDR)                      # header byte
            elif kind < 8 and fl > 0:
                off = h + HDR + rng.below(fl)                 # payload byte
            else:
                off = rng.below(total) if total else 0
            m = rng.below(4)
            if m == 0:
                mut = 'x:%d:%d' % (off, 1 << rng.below(8))
            elif m == 1:
                mut = 's:%d:%d' % (off, rng.choice([0, 255]))
            elif m == 2:
                mut = 'z:%d:%d' % (off - off % 512, 512)
            else:
                mut = 'x:%d:%d,x:%d:%d' % (off, rng.range(1, 255), min(total - 1, off + rng.range(1, 40)) if total else 0, rng.range(1, 255))

            cases.append(alter_case(recstr, shown, lens, total, phys, mut))
    # --- reader on arbitrary bytes (soundness / totality of the model = of the code)
    for _ in range(150 if not big else 3000):
        n = rng.choice([0, 1, 6, 7, 8, rng.below(64), rng.below(400), BLOCK + rng.below(64)])
        k = rng.below(4)
        if k == 0:
            arg = proto.arg(rng.bytes(n))
        elif k == 1:
            # plausible header: length small, type 1..5
            b = bytearray(rng.bytes(max(n, 7)))
            b[4] = rng.below(12); b[5] = 0; b[6] = rng.below(6)
            arg = proto.arg(bytes(b))
        elif k == 2:
            arg = '=00~%d' % n
        else:
            arg = '@%d~%d' % (rng.below(1000), n)
        cases.append(Case('logr-arbitrary', 'logr %d %s' % (rng.below(2), arg)))
    return cases


def alter_case(recstr, shown, lens, total, phys, mut):
    def al_oracle(resp):
        parts = resp.split(' ')
        evs = [p for p in parts[1:] if p]
        got = [e for e in evs if e.startswith('r:')]
        drops = [e for e in evs if e.startswith('d:')]
        # never a record that was not written: the returned records are a sub-sequence of the written ones
        j = 0
        for g in got:
            while j < len(shown) and shown[j] != g:
                j += 1
            if j == len(shown):
                return 'altered log (%s) yielded a record that was not written (or out of order): %s' % (mut, g)
            j += 1
        if len(got) < len(shown) and not drops:
            return 'SILENT altered log (%s) lost %d record(s) without reporting a drop' % (mut, len(shown) - len(got))
        return None
    return Case('log-alter', 'logwr 1 %s %s' % (recstr, mut), oracle=al_oracle, meta={'lens': lens, 'mut': mut, 'phys': phys, 'total': total})


def finding_probes():
    """deterministic reproductions of the listed by-design findings (so that their KNOWN-FINDING line is printed on every run)"""
    out = []
    args = ['@1~100', '@2~200']
    lens = [100, 200]
    total, ends, phys = layout(lens)
    shown = ['r:' + proto.show_bytes(proto.parse_bytes(a)) for a in args]
    # length high byte of the last physical record -> points past EOF in the final block
    out.append(alter_case(','.join(args), shown, lens, total, phys, 'x:%d:64' % (phys[1][0] + 5)))
    # an empty FULL record whose type byte is zeroed: header becomes type 0 / length 0 (preallocated-region marker)
    args = ['@1~10', '-', '@3~10']
    lens = [10, 0, 10]
    total, ends, phys = layout(lens)
    shown = ['r:' + proto.show_bytes(proto.parse_bytes(a)) for a in args]
    out.append(alter_case(','.join(args), shown, lens, total, phys, 's:%d:0' % (phys[1][0] + 6)))
    return out


def rng_sample(rng, xs, k):
    xs = list(xs)
    if len(xs) <= k:
        return xs
    out = []
    for _ in range(k):
        out.append(xs[rng.below(len(xs))])
    return out


def header_becomes_zero(ph, mut):
    """does the whole mutation turn the length and type bytes of this physical record's header into 00 00 00 ?
    (exactly the listed finding: a header that reads as the preallocated-region marker, type 0 AND length 0)"""
    h, fl, typ = ph
    b = {h + 4: fl & 0xff, h + 5: (fl >> 8) & 0xff, h + 6: typ}
    touched = False
    for part in mut.split(','):
        f = part.split(':')
        if f[0] == 'x':
            off, m = int(f[1]), int(f[2])
            if off in b:
                b[off] ^= m; touched = True
        elif f[0] == 's':
            off, v = int(f[1]), int(f[2])
            if off in b:
                b[off] = v; touched = True
        elif f[0] == 'z':
            lo, n = int(f[1]), int(f[2])
            for off in list(b):
                if lo <= off < lo + n:
                    b[off] = 0; touched = True
    return touched and all(v == 0 for v in b.values())


def known_matcher(findings):
    listed = [f for f in findings.get('known', []) if f.get('property') == PID]

    def match(case, resp, why):
        if case.suite != 'log-alter' or not why.startswith('SILENT'):
            return None
        meta = case.meta or {}
        phys, total = meta.get('phys', []), meta.get('total', 0)
        mut = meta.get('mut', '')
        for f in listed:
            sig = f.get('signature')
            for part in mut.split(','):
                fields = part.split(':')
                if fields[0] == 'z':
                    lo, hi = int(fields[1]), int(fields[1]) + int(fields[2])
                else:
                    lo, hi = int(fields[1]), int(fields[1]) + 1
                for ph in phys:
                    h, fl = ph[0], ph[1]
                    last_block = (h // BLOCK) == ((total - 1) // BLOCK)
                    hits_len = lo < h + 6 and hi > h + 4
                    if sig == 'length-field-altered-in-final-block-looks-like-torn-tail' and hits_len and last_block:
                        return f['text']
                    if sig == 'header-altered-to-zero-type-zero-length' and header_becomes_zero(ph, mut):
                        return f['text']
        return None
    return match


def run(tier):
    chk = Check(PID, tier)
    rng = Rng(chk.seed).fork(PID)
    unit = vlib.build_harness('unit', 'asan', exclude=['util/crc32c.c'])
    lean_stage(chk, THEOREMS, IMPORTS, TARGETS)
    cases = [Case('corpus', r) for r in load_corpus(PID)] + finding_probes() + gen(tier, rng)
    chk.rules.append('cases generated from VERIF_SEED by checks/C15.py (crc lengths/alignments, writer length sequences incl. every block-boundary neighbourhood, '
                     'round trips, truncations at record/header boundaries and random offsets, bit/byte/sector alterations, arbitrary bytes); '
                     'a case is non-trivial when the implementation response is not empty/fail, distinct = distinct (suite, response)')
    run_cases(chk, cases, unit, known=known_matcher(vlib.load_findings()), reference_suites={'logw', 'log-roundtrip', 'log-truncate', 'log-alter'})
    chk.assumptions += ['reader modelled for initial_offset = 0 (the only value lcdb itself uses)',
                        'alterations: "never a record that was not written" holds unconditionally for single-byte alterations (crc_detects_single_byte); multi-byte alterations assume no CRC-32C collision']
    return chk.finish()


def replay(path):
    import json
    rp = json.load(open(path))
    unit = vlib.build_harness('unit', 'asan', exclude=['util/crc32c.c'])
    out = vlib.serve(unit, [rp['request']], vlib.asan_env())
    print('request:', rp['request'])
    print('implementation now:', out[0])
    print('recorded implementation:', rp.get('implementation'))
    print('model:', rp.get('model'))
    return 0
