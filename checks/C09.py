"""C09 — No deadlock, lost wake-up or stuck call"""
import conccheck

PID = 'C09'
THEOREMS = []
IMPORTS = ['LcdbModel.Props.C09']
TARGETS = ['LcdbModel.Props.C09']
OWN = set('deadlock,stuck'.split(','))


def run(tier):
    return conccheck.run(PID, tier, THEOREMS, IMPORTS, TARGETS, OWN)


def replay(path):
    return conccheck.replay(PID, path)
