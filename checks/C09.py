"""C09 — No deadlock, lost wake-up or stuck call"""
import conccheck

PID = 'C09'
THEOREMS = [
    'Lcdb.C09.queue_inv',
    'Lcdb.C09.wakeup_inv',
    'Lcdb.C09.bg_inv',
    'Lcdb.C09.no_deadlock',
    'Lcdb.C09.rank_step',
    'Lcdb.C09.run_bound',
    'Lcdb.C09.progress_partial',
    'Lcdb.C09.no_infinite_run',
]
IMPORTS = ['LcdbModel.Props.C09']
TARGETS = ['LcdbModel.Props.C09']
OWN = set('deadlock,stuck'.split(','))


def run(tier):
    return conccheck.run(PID, tier, THEOREMS, IMPORTS, TARGETS, OWN)


def replay(path):
    return conccheck.replay(PID, path)
