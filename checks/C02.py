"""C02 — Synced writes survive power loss"""
import crashcheck

PID = 'C02'
TAGS = {'crashsync', 'crashopen', 'crashview', 'crashinvented', 'conforms', 'conformsdel', 'crashfollow'}
THEOREMS = [
    'Lcdb.C02.synced_durable',
    'Lcdb.C02.synced_durable_strict',
    'Lcdb.C02.unlinked_below',
    'Lcdb.C02.crash_image_readable',
    'Lcdb.C02.crash_image_readable_acked',
    'Lcdb.C02.conforms_example',
    'Lcdb.C02.conforms_example_strict',
    'Lcdb.C02.bad1_rejected',
    'Lcdb.C02.bad1_loses',
    'Lcdb.C02.bad2_rejected',
    'Lcdb.C02.bad2_loses',
    'Lcdb.C02.bad3_rejected',
    'Lcdb.C02.bad3_loses',
    'Lcdb.C02.bad4_rejected',
    'Lcdb.C02.bad4_loses',
    'Lcdb.Disk.conforms_prefix',
]
IMPORTS = ['LcdbModel.Props.C02']
TARGETS = ['LcdbModel.Props.C02']


def run(tier):
    return crashcheck.run_crash(PID, tier, TAGS, THEOREMS, IMPORTS, TARGETS, '1234', 'follow', quick=(8, 30, 28))


def replay(path):
    return crashcheck.replay(PID, path)
