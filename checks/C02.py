"""C02 — Synced writes survive power loss"""
import crashcheck

PID = 'C02'
TAGS = {'crashsync', 'crashopen', 'crashview', 'crashinvented', 'conforms', 'conformsdel', 'crashfollow'}
THEOREMS = [
    'Lcdb.C02.synced_durable',
    'Lcdb.C02.synced_durable_strict',
    'Lcdb.C02.unlinked_below',
    'Lcdb.C02.crash_image_readable',
    'Lcdb.C02.crash_image_readable_acked',
    'Lcdb.C02.conforms_example',
    'Lcdb.C02.conforms_example_strict',
    'Lcdb.C02.bad1_rejected',
    'Lcdb.C02.bad1_loses',
    'Lcdb.C02.bad2_rejected',
    'Lcdb.C02.bad2_loses',
    'Lcdb.C02.bad3_rejected',
    'Lcdb.C02.bad3_loses',
    'Lcdb.C02.bad4_rejected',
    'Lcdb.C02.bad4_loses',
    'Lcdb.Disk.conforms_prefix',
    'Lcdb.C08.sync_not_in_nonsync_group',
]
IMPORTS = ['LcdbModel.Props.C02', 'LcdbModel.Props.C08']
TARGETS = ['LcdbModel.Props.C02', 'LcdbModel.Props.C08', 'conccheck']


def group_commit(chk, tier):
    # with several writer threads a sync write may be committed by another thread (the group leader): the leader must have
    # fsynced the log before the sync write is acknowledged (Conc model: a sync writer never joins a non-sync leader's group)
    import conccheck
    from vlib import Rng
    conccheck.conc_part(chk, tier, Rng(chk.seed).fork('C02conc'), {'syncdurable'}, scale=0.4)


def run(tier):
    return crashcheck.run_crash(PID, tier, TAGS, THEOREMS, IMPORTS, TARGETS, '1234', 'follow', quick=(8, 30, 28), thorough=(45, 60, 50), extra=group_commit)


def replay(path):
    return crashcheck.replay(PID, path)
