"""Request generators with direct property oracles for the iterator stack above blocks
(table/merger.c, db_iter.c, the generic seek helpers of table/iterator.c on the user iterator).

Requests
  merge  <cmp> <run|run|...> <ops>        ops F,L,N,P,S:<ukey>:<seq>           -> valid,ukey,seq,kind,val;... <status>
  dbiter <cmp> <seq> <run|run|...> <ops>  ops F,L,N,P,S:/GE:/GT:/LE:/LT:<ukey> -> valid,ukey,val,status;...
  run = ukey:seq:kind:val,...   ('.' empty run, '!c' / '!i' error child, '~' no children at all)

Every oracle is computed here in Python from the entries and the comparator (sorted union / sorted
dict of the visible map); none of them looks at the Lean model's answer."""
import functools
import proto
from common import Case

CMPS = ('bw', 'rev', 'len')
MAXSEQ = (1 << 56) - 1


def _c3(a, b):
    return -1 if a < b else (1 if a > b else 0)


def ucmp(name, a, b):
    if name == 'bw':
        return _c3(a, b)
    if name == 'rev':
        return _c3(b, a)
    if len(a) != len(b):
        return _c3(len(a), len(b))
    return _c3(a, b)


def icmp(name, a, b):
    """internal-key order on (ukey, seq, kind, ...): user key ascending, (seq<<8|kind) descending"""
    r = ucmp(name, a[0], b[0])
    if r:
        return r
    return _c3(b[1] * 256 + b[2], a[1] * 256 + a[2])


def sort_run(name, es):
    return sorted(es, key=functools.cmp_to_key(lambda a, b: icmp(name, a, b)))


# ------------------------------------------------------------------ data generation
KEY_POOL = [b'', b'a', b'b', b'c', b'ab', b'ac', b'abc', b'b\x00', b'\x00', b'\xff', b'\xff\xff', b'a\xff', b'ba', b'zz', b'k1', b'k2', b'k10']


def val_bytes(rng):
    k = rng.below(20)
    if k < 3:
        return b''
    if k < 17:
        return rng.bytes(rng.range(1, 6))
    if k < 19:
        return rng.bytes(rng.choice([39, 40, 41, 64]))
    return rng.bytes(rng.range(100, 300))


def gen_db(rng, dup=False, badkind=False, max_runs=6):
    """entries spread over 1..max_runs runs: a small user-key alphabet so one user key has many versions
    in several runs, tombstones above and below values; (ukey, seq) distinct across ALL runs unless dup.
    returns (runs, allseqs); an entry is (ukey, seq, kind, val)"""
    nruns = rng.range(1, max_runs)
    if rng.chance(1, 40):
        nruns = 0           # ldb_mergeiter_create(n = 0): the empty iterator
    alpha = []
    for _ in range(rng.choice([1, 2, 2, 3, 3, 4, 5, 6, 8])):
        k = rng.choice(KEY_POOL)
        if k not in alpha:
            alpha.append(k)
    sizes = [rng.choice([0, 0, 1, 2, 3, 5, 8, 13, 20, 30, 40]) for _ in range(nruns)]
    if rng.chance(1, 3):
        sizes = [min(x, 6) for x in sizes]
    total = sum(sizes)
    seqspace = rng.choice([total + 2, total + 2, 2 * total + 5, 50, 300])
    big = rng.chance(1, 12)
    used = set()
    runs = []
    for ri in range(nruns):
        run = []
        inrun = set()
        for _ in range(sizes[ri]):
            for _try in range(20):
                k = rng.choice(alpha)
                q = rng.below(seqspace + 1)
                if big and rng.chance(1, 6):
                    q = rng.choice([MAXSEQ, MAXSEQ - 1, 1 << 32, (1 << 48) + 5])
                if dup and used and rng.chance(1, 3):
                    k, q = rng.choice(sorted(used))
                if (k, q) in inrun:
                    continue
                if not dup and (k, q) in used:
                    continue
                break
            else:
                continue
            kind = 1 if rng.below(10) < 6 else 0
            if badkind and rng.chance(1, 6):
                kind = rng.choice([2, 3, 127, 128, 255])
            if dup and (k, q) in used and rng.chance(1, 2):
                # an identical internal key in another run (possibly another value)
                kind = next(e[2] for r in runs for e in r if (e[0], e[1]) == (k, q))
            if (k, q, kind) in {(e[0], e[1], e[2]) for e in run}:
                continue
            v = val_bytes(rng) if (kind != 0 or rng.chance(1, 5)) else b''
            run.append((k, q, kind, v))
            inrun.add((k, q))
            used.add((k, q))
        # entries are given in any order
        runs.append(run)
    return runs, alpha


def run_arg(run):
    if not run:
        return '.'
    return ','.join('%s:%d:%d:%s' % (proto.arg(k), q, t, proto.arg(v)) for k, q, t, v in run)


def runs_arg(runs, errs=None):
    parts = [run_arg(r) for r in runs]
    for pos, tag in (errs or []):
        parts.insert(pos, tag)
    return '|'.join(parts) if parts else '~'


def pick_seq(rng, runs):
    seqs = sorted({e[1] for r in runs for e in r})
    k = rng.below(10)
    if not seqs:
        return rng.choice([0, 1, MAXSEQ])
    if k < 4:
        return seqs[-1]
    if k < 7:
        return seqs[len(seqs) // 2]
    if k < 8:
        return 0
    if k < 9:
        return rng.choice(seqs)
    return rng.choice([MAXSEQ, min(seqs[-1] + 1, MAXSEQ), max(seqs[0] - 1, 0)])


def seek_key(rng, alpha, present):
    """present / absent / before-first / after-last / empty keys"""
    k = rng.below(10)
    if k < 4 and present:
        return rng.choice(present)
    if k < 6:
        return rng.choice(alpha)
    if k < 7:
        return b''
    if k < 8:
        return b'\xff\xff\xff'
    if k < 9:
        b = rng.choice(alpha)
        return b + bytes([rng.choice([0, 0x61, 0xff])])
    return rng.choice(KEY_POOL)


def walk_ops(rng, n, mk_seek, helpers):
    """random walk biased to direction changes"""
    ops = [rng.choice(['F', 'L', 'F', 'L', mk_seek('S')])]
    d = rng.choice(['N', 'P'])
    for _ in range(n):
        j = rng.below(20)
        if j < 13:
            if rng.chance(2, 5):
                d = 'N' if d == 'P' else 'P'
            ops.append(d)
        elif j < 15:
            ops.append(rng.choice(['F', 'L']))
        else:
            ops.append(mk_seek(rng.choice(helpers)))
    return ops


def fix_skips(rng, ops, simulate, mk_seek, helpers):
    """most N/P that would hit an invalid iterator (the protocol skips them) become positioning ops;
    `simulate(ops)` is the reference cursor of the stream's oracle"""
    out = []
    for o in ops:
        if o in ('N', 'P') and out and simulate(out + [o])[-1] == 'skip' and rng.chance(9, 10):
            o = rng.choice(['F', 'L', mk_seek(rng.choice(helpers)), mk_seek(rng.choice(helpers))])
        out.append(o)
    return out


def zigzag_ops(rng, npos, start):
    """a direction change at a chosen position of a full scan: F,N*i,P,N,N,P,P,... / L,P*i,N,P,..."""
    a, b = ('N', 'P') if start == 'F' else ('P', 'N')
    i = rng.below(npos + 2)
    tail = [rng.choice([a, b]) for _ in range(rng.range(1, 6))]
    return [start] + [a] * i + [b] + tail


# ------------------------------------------------------------------ merge oracles
def show_entry(e):
    return '1,%s,%d,%d,%s' % (proto.show_bytes(e[0]), e[1], e[2], proto.show_bytes(e[3]))


INVALID_M = '0,-,0,0,-'


def merge_expected(cmp_name, runs, ops):
    union = sort_run(cmp_name, [e for r in runs for e in r])
    exp = []
    pos = None
    for o in ops:
        if o == 'F':
            pos = 0 if union else None
        elif o == 'L':
            pos = len(union) - 1 if union else None
        elif o in ('N', 'P'):
            if pos is None:
                exp.append('skip')
                continue
            pos = pos + 1 if o == 'N' else pos - 1
            if pos < 0 or pos >= len(union):
                pos = None
        else:
            _, k, q = o.split(':')
            t = (proto.parse_bytes(k), int(q), 1)
            pos = None
            for i, e in enumerate(union):
                if icmp(cmp_name, e, t) >= 0:
                    pos = i
                    break
        exp.append(show_entry(union[pos]) if pos is not None else INVALID_M)
    return exp


def merge_cursor_oracle(cmp_name, runs, ops, status='ok'):
    """distinct internal keys: the merging iterator is a cursor over the sorted union"""
    exp = merge_expected(cmp_name, runs, ops)
    want = (';'.join(exp) if exp else '.') + ' ' + status

    def oracle(resp):
        if resp != want:
            return 'merging iterator is not a cursor over the sorted union: expected %s got %s' % (want[:300], resp[:300])
        return None
    return oracle


def merge_multiset_oracle(cmp_name, runs, forward):
    """duplicates allowed: a full scan yields every entry of every child, in (weakly) sorted order"""
    allv = sorted(show_entry(e) for r in runs for e in r)

    def oracle(resp):
        body = resp.rsplit(' ', 1)[0]
        states = body.split(';')
        if states[-1] != INVALID_M:
            return 'scan does not end invalid'
        got = states[:-1]
        if sorted(got) != allv:
            return 'scan does not yield the multiset union (%d vs %d entries)' % (len(got), len(allv))
        keys = []
        for g in got:
            f = g.split(',')
            keys.append((proto.parse_bytes(f[1]) if not f[1].startswith('#') else None, int(f[2]), int(f[3])))
        if any(k[0] is None for k in keys):
            return None
        seq = keys if forward else keys[::-1]
        for a, b in zip(seq, seq[1:]):
            if icmp(cmp_name, a, b) > 0:
                return 'scan out of order'
        return None
    return oracle


# ------------------------------------------------------------------ dbiter oracles
def visible_map(cmp_name, runs, s):
    """sorted list of (ukey, val) of the live keys at sequence s (entries with a bad kind are ignored)"""
    best = {}
    for r in runs:
        for k, q, t, v in r:
            if q <= s and t <= 1:
                if k not in best or q > best[k][0]:
                    best[k] = (q, t, v)
    live = [(k, b[2]) for k, b in best.items() if b[1] == 1]
    return sorted(live, key=functools.cmp_to_key(lambda a, b: ucmp(cmp_name, a[0], b[0])))


def map_cursor(cmp_name, m, ops):
    """what a sorted dict dictates; returns the list of expected 'valid,ukey,val' (or 'skip')"""
    exp = []
    pos = None

    def first_ge(k):
        for i, (mk, _) in enumerate(m):
            if ucmp(cmp_name, mk, k) >= 0:
                return i
        return len(m)

    def first_gt(k):
        for i, (mk, _) in enumerate(m):
            if ucmp(cmp_name, mk, k) > 0:
                return i
        return len(m)

    for o in ops:
        if o == 'F':
            pos = 0
        elif o == 'L':
            pos = len(m) - 1
        elif o in ('N', 'P'):
            if pos is None:
                exp.append('skip')
                continue
            pos = pos + 1 if o == 'N' else pos - 1
        else:
            kind, k = o.split(':')
            k = proto.parse_bytes(k)
            if kind in ('S', 'GE'):
                pos = first_ge(k)
            elif kind == 'GT':
                pos = first_gt(k)
            elif kind == 'LE':
                pos = first_gt(k) - 1
            else:
                pos = first_ge(k) - 1
        if pos is None or pos < 0 or pos >= len(m):
            pos = None
            exp.append('0,-,-')
        else:
            exp.append('1,%s,%s' % (proto.show_bytes(m[pos][0]), proto.show_bytes(m[pos][1])))
    return exp


def dbiter_oracle(cmp_name, runs, s, ops, status='ok', check_status=True):
    exp = map_cursor(cmp_name, visible_map(cmp_name, runs, s), ops)

    def oracle(resp):
        if not ops:
            return None if resp == '.' else 'expected .'
        got = resp.split(';')
        if len(got) != len(exp):
            return 'wrong number of states'
        for i, (g, e) in enumerate(zip(got, exp)):
            if e == 'skip':
                if g != 'skip':
                    return 'op %d (%s): expected skip, got %s' % (i, ops[i], g)
                continue
            body, _, st = g.rpartition(',')
            if body != e:
                return 'op %d (%s): the sorted map dictates %s, iterator shows %s' % (i, ops[i], e, g)
            if check_status and st != status:
                return 'op %d (%s): status %s, expected %s' % (i, ops[i], st, status)
        return None
    return oracle


def scan_pair_oracle(cmp_name, runs, s):
    """request ops = F,N*n,L,P*n (n = number of live keys): forward = reverse of backward = the live keys, each exactly once, in order"""
    m = visible_map(cmp_name, runs, s)
    n = len(m)

    def oracle(resp):
        got = [g.rpartition(',')[0] for g in resp.split(';')]
        if len(got) != 2 * n + 2:
            return 'wrong number of states'
        fwd, bwd = got[:n + 1], got[n + 1:]
        if fwd[-1] != '0,-,-' or bwd[-1] != '0,-,-':
            return 'scan does not end where the map ends'
        f, b = [x for x in fwd if x != '0,-,-'], [x for x in bwd if x != '0,-,-']
        if f != b[::-1]:
            return 'forward scan is not the reverse of the backward scan'
        want = ['1,%s,%s' % (proto.show_bytes(k), proto.show_bytes(v)) for k, v in m]
        if f != want:
            return 'scan is not the live keys, each once, in comparator order'
        return None
    return oracle


# ------------------------------------------------------------------ streams
def gen_merge(rng, n):
    cases = []
    for i in range(n):
        cmp_name = rng.choice(CMPS)
        runs, alpha = gen_db(rng)
        present = sorted({e[0] for r in runs for e in r})
        total = sum(len(r) for r in runs)

        def mk_seek(_kind):
            k = seek_key(rng, alpha, present)
            allq = sorted({e[1] for r in runs for e in r if e[0] == k})
            q = rng.choice(allq) if allq and rng.chance(2, 3) else rng.choice([0, 1, rng.below(60), MAXSEQ])
            if rng.chance(1, 5):
                q = max(q - 1, 0) if rng.chance(1, 2) else q + 1
            return 'S:%s:%d' % (proto.arg(k), min(q, MAXSEQ))
        j = i % 8
        if j == 0:
            ops = ['F'] + ['N'] * (total + 1)
        elif j == 1:
            ops = ['L'] + ['P'] * (total + 1)
        elif j in (2, 3):
            ops = zigzag_ops(rng, total, 'F' if j == 2 else 'L')
        else:
            ops = walk_ops(rng, rng.range(2, 40), mk_seek, ['S'])
            ops = fix_skips(rng, ops, lambda o: merge_expected(cmp_name, runs, o), mk_seek, ['S'])
        errs, status = None, 'ok'
        if rng.chance(1, 10):
            # error children: status = first non-OK child status
            errs = []
            for _ in range(rng.range(1, 2)):
                errs.append((rng.below(len(runs) + 1), rng.choice(['!c', '!i'])))
            parts = [run_arg(r) for r in runs]
            for pos, tag in errs:
                parts.insert(pos, tag)
            first = next(p for p in parts if p in ('!c', '!i'))
            status = 'corrupt' if first == '!c' else 'ioerror'
            ra = '|'.join(parts)
        else:
            ra = runs_arg(runs)
        cases.append(Case('is-merge', 'merge %s %s %s' % (cmp_name, ra, ','.join(ops)),
                          oracle=merge_cursor_oracle(cmp_name, runs, ops, status)))
    return cases


def gen_merge_dup(rng, n):
    """the same internal key in several children (never happens in a database): tie-breaking of
    find_smallest / find_largest and the `== 0 -> next` of the direction switch are observable"""
    cases = []
    for i in range(n):
        cmp_name = rng.choice(CMPS)
        runs, alpha = gen_db(rng, dup=True, max_runs=5)
        present = sorted({e[0] for r in runs for e in r})
        total = sum(len(r) for r in runs)

        def mk_seek(_kind):
            k = seek_key(rng, alpha, present)
            allq = sorted({e[1] for r in runs for e in r if e[0] == k})
            q = rng.choice(allq) if allq and rng.chance(3, 4) else rng.below(60)
            return 'S:%s:%d' % (proto.arg(k), q)
        j = i % 5
        if j == 0:
            ops = ['F'] + ['N'] * total
            oracle = merge_multiset_oracle(cmp_name, runs, True)
        elif j == 1:
            ops = ['L'] + ['P'] * total
            oracle = merge_multiset_oracle(cmp_name, runs, False)
        else:
            ops = walk_ops(rng, rng.range(2, 40), mk_seek, ['S']) if j < 4 else zigzag_ops(rng, total, rng.choice(['F', 'L']))
            oracle = None
        cases.append(Case('is-merge-dup', 'merge %s %s %s' % (cmp_name, runs_arg(runs), ','.join(ops)), oracle=oracle))
    return cases


def gen_dbiter(rng, n):
    cases = []
    for i in range(n):
        cmp_name = rng.choice(CMPS)
        runs, alpha = gen_db(rng)
        s = pick_seq(rng, runs)
        present = sorted({e[0] for r in runs for e in r})
        m = visible_map(cmp_name, runs, s)

        def mk_seek(kind):
            return '%s:%s' % (kind, proto.arg(seek_key(rng, alpha, present)))
        j = i % 10
        if j == 0:
            ops = ['F'] + ['N'] * len(m) + ['L'] + ['P'] * len(m)
            cases.append(Case('is-dbiter-scan', 'dbiter %s %d %s %s' % (cmp_name, s, runs_arg(runs), ','.join(ops)),
                              oracle=scan_pair_oracle(cmp_name, runs, s)))
            continue
        if j in (1, 2):
            ops = zigzag_ops(rng, len(m), 'F' if j == 1 else 'L')
        elif j == 3:
            # every helper on every key of the alphabet
            ops = []
            for k in alpha[:4]:
                for h in ('S', 'GE', 'GT', 'LE', 'LT'):
                    ops.append('%s:%s' % (h, proto.arg(k)))
                    ops.append(rng.choice(['N', 'P']))
        else:
            ops = walk_ops(rng, rng.range(2, 45), mk_seek, ['S', 'S', 'GE', 'GT', 'LE', 'LT'])
            ops = fix_skips(rng, ops, lambda o: map_cursor(cmp_name, m, o), mk_seek, ['S', 'GE', 'GT', 'LE', 'LT'])
        errs, status = None, 'ok'
        ra = runs_arg(runs)
        if rng.chance(1, 14):
            parts = [run_arg(r) for r in runs]
            tag = rng.choice(['!c', '!i'])
            parts.insert(rng.below(len(parts) + 1), tag)
            status = 'corrupt' if tag == '!c' else 'ioerror'
            ra = '|'.join(parts)
        cases.append(Case('is-dbiter', 'dbiter %s %d %s %s' % (cmp_name, s, ra, ','.join(ops)),
                          oracle=dbiter_oracle(cmp_name, runs, s, ops, status)))
    return cases


def gen_dbiter_misuse(rng, n):
    """inputs no database produces: value types > 1 (ldb_pkey_import fails: status corrupt, entry skipped)
    and the same (ukey, seq) in several runs.  Bad kinds: positions still follow the map of the well-formed
    entries (status not judged); duplicates: differential only."""
    cases = []
    for i in range(n):
        cmp_name = rng.choice(CMPS)
        dup = i % 2 == 1
        runs, alpha = gen_db(rng, dup=dup, badkind=not dup, max_runs=4)
        s = pick_seq(rng, runs)
        present = sorted({e[0] for r in runs for e in r})

        def mk_seek(kind):
            return '%s:%s' % (kind, proto.arg(seek_key(rng, alpha, present)))
        ops = walk_ops(rng, rng.range(2, 40), mk_seek, ['S', 'GE', 'GT', 'LE', 'LT'])
        oracle = None if dup else dbiter_oracle(cmp_name, runs, s, ops, check_status=False)
        cases.append(Case('is-dbiter-misuse', 'dbiter %s %d %s %s' % (cmp_name, s, runs_arg(runs), ','.join(ops)), oracle=oracle))
    return cases


def gen_malformed(rng, n):
    """syntactically broken requests: both sides must answer bad-op"""
    bad = [
        'merge bw 61:1:1 F', 'merge bw 61:1:1:aa:bb F', 'merge xx 61:1:1:aa F', 'merge bw 61:1:1:aa X',
        'merge bw 61:1:1:aa S:61', 'merge bw 61:x:1:aa F', 'merge bw 61:1:256:aa F', 'merge bw 6:1:1:aa F',
        'merge bw 61:72057594037927936:1:aa F', 'merge bw 61:1:1:aa S:61:72057594037927936', 'merge bw 61:1:1:aa|zz F',
        'dbiter bw x 61:1:1:aa F', 'dbiter bw 1 61:1:1:aa S', 'dbiter bw 1 61:1:1:aa GE', 'dbiter bw 1 61:1:1:aa XX:61',
        'dbiter bw 72057594037927936 61:1:1:aa F', 'dbiter bw 1 61:1:1:aa S:6', 'dbiter bw 1 61:1:1 F', 'dbiter bw 1 61:1:1:aa F,,N',
        'dbiter bw 1 F', 'merge bw F', 'dbiter bw 1 61:1:1:aa S:61:1',
    ]
    cases = []
    for i in range(n):
        req = bad[i % len(bad)]

        def oracle(resp):
            return None if resp == 'bad-op' else 'expected bad-op'
        cases.append(Case('is-malformed', req, oracle=oracle))
    return cases


def gen_iterstack(rng, n):
    """the slice's whole stream"""
    nm = n * 28 // 100
    nd = n * 10 // 100
    ni = n * 50 // 100
    nmis = n * 10 // 100
    return (gen_merge(rng.fork('merge'), nm) + gen_merge_dup(rng.fork('mdup'), nd) + gen_dbiter(rng.fork('dbiter'), ni)
            + gen_dbiter_misuse(rng.fork('misuse'), nmis) + gen_malformed(rng.fork('bad'), max(n - nm - nd - ni - nmis, 0)))
