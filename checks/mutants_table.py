#!/usr/bin/env python3
"""Sensitivity check of the table-slice rig: single-line mutants of a scratch copy of /repo, each run through
run_table.py (C harness built against the mutant vs. the unchanged Lean model + the Python oracles).
usage: mutants_table.py [seed [ncases]]        nothing is written to /repo"""
import os, shutil, subprocess, sys, tempfile
HERE = os.path.dirname(os.path.abspath(__file__))
REPO = os.environ.get('VERIF_REPO', '/repo')

MUTANTS = [
    ('drop-crc-comparison', 'src/table/format.c', '    if (crc != actual) {', '    if (0) {'),
    ('12.5%-rule->25%', 'src/table/table_builder.c', 'raw.size - (raw.size / 8)', 'raw.size - (raw.size / 4)'),
    ('filter-offset+2048-in-get', 'src/table/table.c', '!ldb_filter_matches(filter, handle.offset, k)', '!ldb_filter_matches(filter, handle.offset + 2048, k)'),
    ('filter-start_block-offset+2048', 'src/table/table_builder.c', '    ldb_filtergen_start_block(tb->filter_block, tb->offset);', '    ldb_filtergen_start_block(tb->filter_block, tb->offset + 2048);'),
    ('flush->=-to->', 'src/table/table_builder.c', 'if (estimated_block_size >= tb->options.block_size)', 'if (estimated_block_size > tb->options.block_size)'),
    ('twoiter-saverr-dropped', 'src/table/two_level_iterator.c', '    ldb_twoiter_saverr(iter, ldb_wrapiter_status(&iter->data_iter));', '    (void)0;'),
    ('get-ignores-block-status', 'src/table/table.c', '      rc = ldb_iter_status(block_iter);', '      rc = LDB_OK;'),
    ('index-restart-interval-not-1', 'src/table/table_builder.c', '  tb->index_block_options.block_restart_interval = 1;', '  (void)0;'),
    ('crc-does-not-cover-type', 'src/table/table_builder.c', '    crc = ldb_crc32c_extend(crc, trailer, 1); /* Extend crc to cover type. */', '    (void)0;'),
    ('read_filter-never-verifies', 'src/table/table.c', '  if (table->options.paranoid_checks)\n    opt.verify_checksums = 1;\n\n  rc = ldb_read_block(&block,', '  rc = ldb_read_block(&block,'),
    ('no-short-successor-for-last-index-key', 'src/table/table_builder.c', '      ldb_short_successor(tb->options.comparator, &tb->last_key);', '      (void)0;'),
    ('seek-without-skip-forward', 'src/table/two_level_iterator.c', '    ldb_wrapiter_seek(&iter->data_iter, target);\n\n  ldb_twoiter_skip_forward(iter);', '    ldb_wrapiter_seek(&iter->data_iter, target);\n'),
    ('size-overflow-check-off-by-trailer', 'src/table/format.c', '  if (contents.size != len) {', '  if (contents.size + 1 < len) {'),
    ('bad-block-type-accepted', 'src/table/format.c', '    default: {\n      ldb_free(buf);\n      return LDB_CORRUPTION; /* "bad block type" */', '    default: {\n      ldb_free(buf);\n      return LDB_OK; /* "bad block type" */'),
    ('metaindex-key-without-prefix', 'src/util/bloom.c', '  memcpy(buf + 0, "filter.", 7);', '  memcpy(buf + 0, "filter,", 7);'),
    ('paranoid-index-not-verified', 'src/table/table.c', '  /* Read the index block. */\n  if (options->paranoid_checks)\n    opt.verify_checksums = 1;', '  /* Read the index block. */'),
]


def main():
    seed = sys.argv[1] if len(sys.argv) > 1 else '1'
    n = sys.argv[2] if len(sys.argv) > 2 else '500'
    only = sys.argv[3:] if len(sys.argv) > 3 else None
    base = tempfile.mkdtemp(prefix='lcdb-verif-mut-', dir=os.environ.get('VERIF_SCRATCH', '/var/tmp'))
    results = []
    try:
        for name, path, old, new in MUTANTS:
            if only and name not in only:
                continue
            d = os.path.join(base, name.replace('%', 'pct').replace('>', 'gt').replace('=', 'eq').replace('/', '_'))
            os.makedirs(d)
            shutil.copytree(os.path.join(REPO, 'src'), os.path.join(d, 'src'))
            shutil.copytree(os.path.join(REPO, 'include'), os.path.join(d, 'include'))
            p = os.path.join(d, path)
            s = open(p).read()
            if s.count(old) != 1:
                results.append((name, 'NOT APPLIED (pattern occurs %d times)' % s.count(old)))
                continue
            open(p, 'w').write(s.replace(old, new))
            env = dict(os.environ, VERIF_REPO=d)
            r = subprocess.run([sys.executable, os.path.join(HERE, 'run_table.py'), seed, n], env=env,
                               stdout=subprocess.PIPE, stderr=subprocess.STDOUT, text=True)
            line = [l for l in r.stdout.split('\n') if l.startswith('seed ')]
            summary = line[-1] if line else r.stdout[-300:]
            import re
            m = re.search(r'disagreeing cases (\d+); oracle violations (\d+); C faults (\d+)', summary)
            if m:
                dis, vio, flt = map(int, m.groups())
                verdict = 'DETECTED' if (dis or vio or flt) else 'not detected'
                results.append((name, '%s (disagreeing cases %d, oracle violations %d, C faults %d)' % (verdict, dis, vio, flt)))
            else:
                results.append((name, 'run failed: ' + summary[-300:]))
            print(results[-1])
            sys.stdout.flush()
            shutil.rmtree(d, ignore_errors=True)
    finally:
        shutil.rmtree(base, ignore_errors=True)
    print('--- summary (seed %s, %s cases)' % (seed, n))
    for name, v in results:
        print('%-42s %s' % (name, v))


if __name__ == '__main__':
    main()
