"""Pieces shared by the per-property checks."""
import json, os, sys
import vlib
from vlib import Check, Rng


class Case:
    __slots__ = ('suite', 'req', 'oracle', 'key', 'meta')

    def __init__(self, suite, req, oracle=None, key=None, meta=None):
        self.suite = suite      # suite name (one correspondence obligation per suite)
        self.req = req          # request line
        self.oracle = oracle    # callable(c_response) -> None | str : direct property oracle on the implementation
        self.key = key          # non-triviality key override (default: the response itself)
        self.meta = meta        # anything useful for a replay


def lean_stage(chk, theorems, imports, targets):
    """translators, lake build of the property's modules + driver, forbidden-construct grep, #print axioms"""
    res = vlib.lean_build(tuple(targets) + ('modeld',))
    if not res.ok:
        for m in res.failed_modules or ['<unknown>']:
            excerpt = [l for l in res.log.split('\n') if 'error' in l][:4]
            chk.oblige('lean-build:' + m, False, ' | '.join(excerpt)[:600])
    else:
        chk.oblige('lean-build', True, ', '.join(targets))
    hits = vlib.lean_source_audit()
    chk.oblige('no sorry/admit/axiom/native_decide/bv_decide/implemented_by/unsafe in lean/', not hits, '; '.join(hits[:5]))
    ax = vlib.axioms_audit(theorems, imports)
    for t in theorems:
        ok, detail = ax.get(t, (False, 'not audited'))
        chk.oblige('theorem:' + t, ok, detail)
    return res


def run_cases(chk, cases, unit_bin, neighbours=None, known=None, reference_suites=()):
    """differential run of `cases` through the C harness and the Lean driver.
    known: callable(case, c_resp, why) -> str|None ; returns the finding text when the failing case matches a listed known finding"""
    if not cases:
        return
    reqs = [c.req for c in cases]
    diffs, c_out, m_out = vlib.correspond(reqs, unit_bin)
    by_suite = {}
    suite_diffs = {}
    for i, c in enumerate(cases):
        by_suite[c.suite] = by_suite.get(c.suite, 0) + 1
        co = c_out[i]
        k = c.key if c.key is not None else co
        trivial = co in ('', '-', 'fail', 'bad-op', '.', None)
        chk.note_case((c.suite, k), not trivial)
        why = None
        if co is not None and co.startswith('fault:'):
            why = 'implementation faulted (sanitizer/abort/timeout): ' + co
        elif co == 'bad-op':
            why = None
        elif c.oracle is not None:
            why = c.oracle(co)
        if why:
            kf = known(c, co, why) if known else None
            if kf:
                if kf not in chk.known:
                    chk.known_finding(kf)
            else:
                chk.violation('%s: %s' % (c.suite, why), {'suite': c.suite, 'request': c.req, 'implementation': co, 'model': m_out[i], 'meta': c.meta,
                                                          'replay_cmd': "echo '<request>' | <harness binary built by ./check>"})
    nref = 0
    for i, req, co, mo in diffs:
        suite_diffs.setdefault(cases[i].suite, []).append((i, req, co, mo))
        # reference_suites: the property itself names an independently written encoder/decoder as the yardstick, and the Lean
        # model (proved to meet the format theorems) is that yardstick: a different answer on a concrete request is a violation
        if cases[i].suite in reference_suites and nref < 2 and not (co is not None and co.startswith('fault:')):
            nref += 1
            chk.violation('%s: the implementation differs from the independent reference encoder/decoder: implementation %s, reference %s' % (cases[i].suite, str(co)[:160], str(mo)[:160]),
                          {'suite': cases[i].suite, 'request': req, 'implementation': co, 'reference_model': mo, 'meta': cases[i].meta,
                           'replay_cmd': "echo '<request>' | <harness binary built by ./check>  and  echo '<request>' | lean/.lake/build/bin/modeld"})
    for s in sorted(by_suite):
        d = suite_diffs.get(s, [])
        detail = '%d cases' % by_suite[s]
        if d:
            i, req, co, mo = d[0]
            detail += '; %d disagree; first: request=%s implementation=%s model=%s' % (len(d), req[:300], str(co)[:200], str(mo)[:200])
        chk.oblige('correspondence:' + s, not d, detail)
    # sample a few cases into the evidence
    seen = set()
    for i, c in enumerate(cases):
        if c.suite not in seen:
            seen.add(c.suite)
            chk.sample({'suite': c.suite, 'request': c.req[:200], 'response': (c_out[i] or '')[:200]})
    # search step for disagreements that no oracle turned into a concrete property failure
    if diffs and neighbours and not chk.violations:
        extra = []
        for i, req, co, mo in diffs[:20]:
            extra += neighbours(cases[i])
        if extra:
            outs = vlib.serve_parallel(unit_bin, [c.req for c in extra], vlib.asan_env())
            for c, co in zip(extra, outs):
                why = None
                if co is not None and co.startswith('fault:'):
                    why = 'implementation faulted: ' + co
                elif c.oracle is not None:
                    why = c.oracle(co)
                if why and not (known and known(c, co, why)):
                    chk.violation('%s: %s' % (c.suite, why), {'suite': c.suite, 'request': c.req, 'implementation': co, 'meta': c.meta, 'found_by': 'neighbour search'})
                    break
    return c_out, m_out


def save_corpus(pid, cases):
    d = os.path.join(vlib.ROOT, 'corpus', pid)
    os.makedirs(d, exist_ok=True)


def load_corpus(pid):
    p = os.path.join(vlib.ROOT, 'corpus', pid, 'requests.txt')
    if not os.path.exists(p):
        return []
    return [l.rstrip('\n') for l in open(p) if l.strip() and not l.startswith('#')]
