"""C20 — lifecycle operations are exclusive, complete and non-destructive."""
import vlib, gens
from common import Case, lean_stage, run_cases, load_corpus
from vlib import Check, Rng

PID = 'C20'
THEOREMS = [
    'Lcdb.C20.parse_grammar',
    'Lcdb.C20.parse_sound',
    'Lcdb.C20.parse_complete',
    'Lcdb.C20.parse_foreign_untouched',
    'Lcdb.C20.parseFileName_none_of_not_owned',
    'Lcdb.C20.makeName_parse',
]
IMPORTS = ['LcdbModel.Props.C20']
TARGETS = ['LcdbModel.Props.C20']


def run(tier):
    chk = Check(PID, tier)
    rng = Rng(chk.seed).fork(PID)
    unit = vlib.build_harness('unit', 'asan', exclude=['util/crc32c.c'])
    lean_stage(chk, THEOREMS, IMPORTS, TARGETS)
    big = tier == 'thorough'
    cases = [Case('corpus', r) for r in load_corpus(PID)] + gens.gen_fname(rng, 400 if not big else 20000, 3 if not big else 5)
    chk.rules.append('file names: all strings up to length 3 (quick) / 5 (thorough) over a 14-symbol alphabet, fixed edge names, random compositions of name pieces; '
                     'oracle = the owned-name grammar as a regular expression; distinct = distinct (suite, response)')
    run_cases(chk, cases, unit)
    import wl_checks
    wl_checks.c20_part(chk, tier, rng)
    return chk.finish()


def replay(path):
    import json
    rp = json.load(open(path))
    unit = vlib.build_harness('unit', 'asan', exclude=['util/crc32c.c'])
    print(vlib.serve(unit, [rp['request']], vlib.asan_env())[0])
    return 0
