"""Request generators with direct property oracles for the sharded LRU cache (src/util/cache.c).

Requests (see harness/u_cache.h, lean/Driver/LruCache.lean)
  lru  <capacity> <ops>   ops i:<key>:<val>:<charge>  l:<key>  r:<h#>  v:<h#>  e:<key>  p  t  n
                          -> <res>/<deleter calls>;... <usage> <deleter calls of releasing what is outstanding>/<of destroy>
  htab <ops>              ops i:<key>:<hash>:<id>  r:<key>:<hash>  l:<key>:<hash>   -> results <length> <elems> <chains>
  lrux <capacity> <ops>   MODEL ONLY: one shard, raw entry ids (R:<id>, V:<id>); `fault` at the first client error
  lruhash <key>           -> <ldb_hash(key, 0)> <shard>

Every oracle is computed here from a small Python reference (a pinned LRU per shard: a dict of the entries
the cache still knows plus an OrderedDict of the ones nobody holds, longest-unused first); none of them
looks at the Lean model's answer.  Values are unique within a script, so a value names an entry."""
import struct
from collections import Counter, OrderedDict
import proto
from common import Case

M32 = 0xFFFFFFFF
NSHARDS = 16
BIG_CHARGES = (1000, 1 << 31)

# how often each interesting situation occurred in the generated scripts (filled by the generators,
# from the reference simulation): EVENTS[suite][event]
EVENTS = {}


def _events(suite):
    return EVENTS.setdefault(suite, Counter())


# ------------------------------------------------------------------ ldb_hash (src/util/hash.c)
def ldb_hash(data, seed=0):
    m = 0xc6a4a793
    n = len(data)
    h = (seed ^ (n * m)) & M32
    i = 0
    while n - i >= 4:
        w = data[i] | data[i + 1] << 8 | data[i + 2] << 16 | data[i + 3] << 24
        h = (h + w) & M32
        h = (h * m) & M32
        h ^= h >> 16
        i += 4
    rest = n - i
    if rest:
        if rest == 3:
            h += data[i + 2] << 16
        if rest >= 2:
            h += data[i + 1] << 8
        h = (h + data[i]) & M32
        h = (h * m) & M32
        h ^= h >> 24
    return h


def shard_of(key):
    return ldb_hash(key, 0) >> 28


def fixed64(x):
    return struct.pack('<Q', x)


def _build_pools():
    """keys per shard by brute force over short keys; a few of every shape per shard"""
    pools = [[] for _ in range(NSHARDS)]
    count = Counter()

    def offer(k, cat, lim):
        s = shard_of(k)
        if count[(s, cat)] < lim:
            count[(s, cat)] += 1
            pools[s].append(k)
    for i in range(256):
        offer(bytes([i]), 1, 5)
    for i in range(3000):
        offer(struct.pack('<H', (i * 37) & 0xFFFF), 2, 8)
    for i in range(600):
        offer(b'k%d' % i, 3, 6)
    for i in range(1, 400):
        offer(fixed64(i), 4, 5)
    for i in range(600):
        offer(b'key-%03d' % i + b'\x00' * (i % 3), 5, 4)
    offer(b'', 0, 1)
    assert all(len(p) >= 20 for p in pools)
    return pools


POOLS = _build_pools()


# ------------------------------------------------------------------ the reference
class Ent:
    __slots__ = ('key', 'val', 'charge', 'pins', 'cached', 'eid', 'shard')


class RefShard:
    """pinned LRU: `known` = the entries the cache would still answer a lookup with; `idle` = those of them
    nobody holds, longest-unused first.  Every method returns the entries handed to the deleter, in order."""

    def __init__(self, cap, ev=None, idx=0):
        self.cap = cap
        self.idx = idx
        self.usage = 0
        self.known = {}
        self.idle = OrderedDict()
        self.nins = 0
        self.ev = ev if ev is not None else Counter()

    def _forget(self, e, dels):
        if self.known.get(e.key) is e:
            del self.known[e.key]
        e.cached = False
        self.usage -= e.charge
        if e.pins == 0:
            del self.idle[e.eid]
            dels.append(e)

    def insert(self, key, val, charge):
        e = Ent()
        e.key, e.val, e.charge, e.pins, e.cached, e.eid, e.shard = key, val, charge, 1, False, self.nins, self.idx
        self.nins += 1
        dels = []
        if self.cap == 0:
            self.ev['cap0-insert'] += 1     # caching off: the handle is all there is
            return e, dels
        old = self.known.get(key)
        if old is not None:
            self.ev['overwrite-while-pinned' if old.pins else 'overwrite-unpinned'] += 1
            self._forget(old, dels)
        self.known[key] = e
        e.cached = True
        self.usage += charge
        if charge > self.cap:
            self.ev['insert-charge-over-capacity'] += 1
        nvict = 0
        while self.usage > self.cap and self.idle:
            victim = next(iter(self.idle.values()))
            self.ev['evict-after-release'] += 1
            self._forget(victim, dels)
            nvict += 1
        if nvict > 1:
            self.ev['insert-evicts-several'] += 1
        if self.usage > self.cap:
            self.ev['over-capacity-all-pinned'] += 1
        return e, dels

    def lookup(self, key):
        e = self.known.get(key)
        if e is None:
            self.ev['lookup-miss'] += 1
            return None
        self.ev['lookup-hit'] += 1
        if e.pins == 0:
            del self.idle[e.eid]
            self.ev['lookup-revives-lru-entry'] += 1
        e.pins += 1
        return e

    def release(self, e):
        assert e.pins > 0
        e.pins -= 1
        if e.pins == 0:
            if e.cached:
                self.idle[e.eid] = e
                self.ev['release-moves-to-lru'] += 1
            else:
                self.ev['release-deletes-detached'] += 1
                return [e]
        return []

    def erase(self, key):
        dels = []
        e = self.known.get(key)
        if e is None:
            self.ev['erase-absent'] += 1
        else:
            self.ev['erase-while-pinned' if e.pins else 'erase-unpinned'] += 1
            self._forget(e, dels)
        return dels

    def prune(self):
        dels = []
        for e in list(self.idle.values()):
            self._forget(e, dels)
        return dels

    def destroy(self):
        dels = list(self.idle.values())
        self.idle.clear()
        return dels

    def npinned(self):
        return sum(1 for e in self.known.values() if e.pins)


class RefCache:
    def __init__(self, capacity, ev=None):
        self.ev = ev if ev is not None else Counter()
        per = (capacity + NSHARDS - 1) // NSHARDS
        self.shards = [RefShard(per, self.ev, i) for i in range(NSHARDS)]
        self.handles = []       # [entry, outstanding?]
        self.last_id = 0

    # --- state queries used by the generators
    def live_handles(self):
        return [h for h, (e, live) in enumerate(self.handles) if live]

    def pins_of(self, key):
        e = self.shards[shard_of(key)].known.get(key)
        return None if e is None else e.pins

    def outstanding(self, h):
        return h < len(self.handles) and self.handles[h][1]

    # --- one op; returns (result string, [deleted values]) or None for a misuse
    def apply(self, op):
        k = op[0]
        if k == 'i':
            e, dels = self.shards[shard_of(op[1])].insert(op[1], op[2], op[3])
            self.handles.append([e, True])
            return '%d=%d' % (len(self.handles) - 1, e.val), [d.val for d in dels]
        if k == 'l':
            e = self.shards[shard_of(op[1])].lookup(op[1])
            if e is None:
                return '-', []
            self.handles.append([e, True])
            return '%d=%d' % (len(self.handles) - 1, e.val), []
        if k in ('r', 'v'):
            if not self.outstanding(op[1]):
                return None
            e = self.handles[op[1]][0]
            if k == 'v':
                return '%d' % e.val, []
            self.handles[op[1]][1] = False
            return 'ok', [d.val for d in self.shards[e.shard].release(e)]
        if k == 'e':
            return 'ok', [d.val for d in self.shards[shard_of(op[1])].erase(op[1])]
        if k == 'p':
            if any(s.idle for s in self.shards) and any(s.npinned() for s in self.shards):
                self.ev['prune-with-pinned'] += 1
            dels = []
            for s in self.shards:
                dels += s.prune()
            return 'ok', [d.val for d in dels]
        if k == 't':
            return '%d' % sum(e.charge for s in self.shards for e in s.known.values()), []
        if k == 'n':
            self.last_id += 1
            return '%d' % self.last_id, []
        raise ValueError(op)

    def usage(self):
        return sum(s.usage for s in self.shards)

    def shutdown(self):
        rel = []
        for h, (e, live) in enumerate(self.handles):
            if live:
                self.handles[h][1] = False
                rel += self.shards[e.shard].release(e)
        des = []
        for s in self.shards:
            des += s.destroy()
        return [d.val for d in rel], [d.val for d in des]


def ref_run(capacity, ops):
    """-> 'misuse' | (per-op [(result, deleted values)], usage, released, destroyed)"""
    c = RefCache(capacity)
    out = []
    for op in ops:
        r = c.apply(op)
        if r is None:
            return 'misuse'
        out.append(r)
    u = c.usage()
    rel, des = c.shutdown()
    return out, u, rel, des


def op_str(op):
    k = op[0]
    if k == 'i':
        return 'i:%s:%d:%d' % (proto.arg(op[1]), op[2], op[3])
    if k in ('l', 'e'):
        return '%s:%s' % (k, proto.arg(op[1]))
    if k in ('r', 'v'):
        return '%s:%d' % (k, op[1])
    return k


def lru_req(capacity, ops):
    return 'lru %d %s' % (capacity, ','.join(op_str(o) for o in ops) if ops else '.')


def _dl(vals):
    return '.'.join('%d' % v for v in vals) if vals else '-'


def _parse_dl(s):
    return [] if s == '-' else [int(x) for x in s.split('.')]


# ------------------------------------------------------------------ the lru oracle
def lru_oracle(capacity, ops):
    """judges the C response.  First a pass that uses nothing but the response itself (property 2: no
    outstanding value deleted, nothing deleted twice, everything deleted at shutdown), then op by op against
    the reference, naming the property a difference breaks."""
    def oracle(resp):
        exp = ref_run(capacity, ops)
        if exp == 'misuse':
            return None if resp == 'misuse' else 'a release/value of a handle that is not outstanding must answer misuse, got %s' % resp[:100]
        if resp == 'misuse':
            return 'misuse reported for a well-formed script'
        parts = resp.split(' ')
        if len(parts) < 3 or '/' not in parts[2]:
            return 'unparsable response %s' % resp[:100]
        if len(parts) > 3:
            return '(2) deleter accounting: %s' % ' '.join(parts[3:])
        got = [] if parts[0] == '.' else parts[0].split(';')
        if len(got) != len(ops):
            return 'wrong number of op results (%d for %d ops)' % (len(got), len(ops))
        try:
            got = [(g.rsplit('/', 1)[0], _parse_dl(g.rsplit('/', 1)[1])) for g in got]
            g_usage = int(parts[1])
            g_rel, g_des = [_parse_dl(x) for x in parts[2].split('/')]
        except (ValueError, IndexError):
            return 'unparsable response %s' % resp[:100]
        # ---- pass 1: the response alone
        inserted = [o[2] for o in ops if o[0] == 'i']
        held = {}           # handle# -> value, as the implementation itself reported
        nh = 0
        deleted = set()
        for i, (o, (res, dels)) in enumerate(zip(ops, got)):
            if o[0] in ('i', 'l') and res != '-':
                if '=' not in res:
                    return 'op %d (%s): malformed result %s' % (i, op_str(o), res)
                a, b = res.split('=')
                if int(a) != nh:
                    return 'op %d (%s): handle numbered %s, expected %d' % (i, op_str(o), a, nh)
                held[nh] = int(b)
                nh += 1
            elif o[0] == 'r':
                held.pop(o[1], None)
            pinned = set(held.values())
            for d in dels:
                if d in pinned:
                    return '(2) op %d (%s): value %d handed to the deleter while a handle to it is outstanding' % (i, op_str(o), d)
                if d in deleted:
                    return '(2) op %d (%s): value %d handed to the deleter twice' % (i, op_str(o), d)
                deleted.add(d)
        for d in g_rel + g_des:
            if d in deleted:
                return '(2) shutdown: value %d handed to the deleter twice' % d
            deleted.add(d)
        if deleted != set(inserted):
            return '(2) after shutdown not every inserted value was deleted exactly once: missing %s, unknown %s' % (
                sorted(set(inserted) - deleted)[:8], sorted(deleted - set(inserted))[:8])
        # ---- pass 2: against the reference
        e_ops, e_usage, e_rel, e_des = exp
        for i, (o, (res, dels), (eres, edels)) in enumerate(zip(ops, got, e_ops)):
            where = 'op %d (%s)' % (i, op_str(o))
            k = o[0]
            if k == 'l' and res != eres:
                if eres == '-':
                    return '(1) coherence: %s hits (%s) although the entry was erased / evicted / pruned / never inserted' % (where, res)
                if res == '-':
                    return '(1) coherence: %s misses although the entry of value %s is still in the cache' % (where, eres.split('=')[1])
                return '(1) coherence: %s shows %s, the most recent insert of that key is %s' % (where, res, eres)
            if k == 'i' and res != eres:
                return '(1) %s: the returned handle shows %s, expected the inserted value %s' % (where, res, eres)
            if k == 'v' and res != eres:
                return '(1) %s: handle shows value %s, it was handed out for %s' % (where, res, eres)
            if k == 't' and res != eres:
                return '(3) %s: total charge %s, the entries still in the cache sum to %s' % (where, res, eres)
            if k == 'n' and res != eres:
                return '(5) %s: id %s, expected %s (1, 2, 3, ...)' % (where, res, eres)
            if res != eres:
                return '%s: result %s, expected %s' % (where, res, eres)
            if dels != edels:
                if k == 'i':
                    if sorted(dels) == sorted(edels):
                        return '(4) LRU order: %s evicted %s, longest-unused order is %s' % (where, _dl(dels), _dl(edels))
                    if set(dels) < set(edels):
                        return '(3) capacity: after %s usage exceeds the shard capacity while unpinned entries remain (deleted %s, expected %s)' % (where, _dl(dels), _dl(edels))
                    return '(4) LRU eviction: %s deleted %s, expected the replaced entry / exactly the longest-unused unpinned entries: %s' % (where, _dl(dels), _dl(edels))
                if k == 'p':
                    return '(4) prune: %s deleted %s, expected every unpinned entry, shard by shard, oldest first: %s' % (where, _dl(dels), _dl(edels))
                if k == 'r':
                    return '(2) %s: deleter calls %s, expected %s (an entry dies exactly when its last handle goes and the cache no longer knows it)' % (where, _dl(dels), _dl(edels))
                if k == 'e':
                    return '(2) %s: deleter calls %s, expected %s (erase deletes at once iff nobody holds the entry)' % (where, _dl(dels), _dl(edels))
                return '(2) %s: unexpected deleter calls %s' % (where, _dl(dels))
        if g_usage != e_usage:
            return '(5) final usage %d, the entries still in the cache sum to %d' % (g_usage, e_usage)
        if g_rel != e_rel:
            return '(5) deleter calls while releasing the outstanding handles %s, expected %s' % (_dl(g_rel), _dl(e_rel))
        if g_des != e_des:
            return '(5) deleter calls of destroy %s, expected shard by shard, oldest first: %s' % (_dl(g_des), _dl(e_des))
        return None
    return oracle


# ------------------------------------------------------------------ script walker
class Vals:
    """unique value ids of one script"""

    def __init__(self, rng):
        self.n = rng.choice([0, 0, 1, 100, 5000, (1 << 31) - 400])
        self.step = rng.choice([1, 1, 1, 3])

    def next(self):
        v = self.n
        self.n += self.step
        return v


def walk(rng, sim, keys, nops, charge_fn, vals, ops, stray=None, w=None):
    """state-aware random ops on `keys`, applied to `sim` as they are chosen.  The weights favour
    re-inserting / erasing keys somebody holds, reviving entries nobody holds, pruning in mixed states."""
    w = w or (24, 20, 29, 8, 5, 5, 5, 4)        # insert lookup release erase prune total value id
    tot = sum(w)
    for _ in range(nops):
        live = sim.live_handles()
        pinned = [k for k in keys if (sim.pins_of(k) or 0) > 0]
        idle = [k for k in keys if sim.pins_of(k) == 0]
        absent = [k for k in keys if sim.pins_of(k) is None]
        j = rng.below(tot)
        r = rng.below(10)
        op = None
        if j < w[0]:
            if r < 3 and pinned:
                k = rng.choice(pinned)
            elif r < 5 and idle:
                k = rng.choice(idle)
            elif r < 9 and absent:
                k = rng.choice(absent)
            else:
                k = rng.choice(keys)
            op = ('i', k, vals.next(), charge_fn())
        elif j < w[0] + w[1]:
            if r < 5 and idle:
                k = rng.choice(idle)
            elif r < 7 and pinned:
                k = rng.choice(pinned)
            elif r < 9 and absent:
                k = rng.choice(absent)
            elif stray and r == 9:
                k = rng.choice(stray)
            else:
                k = rng.choice(keys)
            op = ('l', k)
        elif j < w[0] + w[1] + w[2]:
            if live:
                op = ('r', live[0] if rng.chance(1, 4) else rng.choice(live))
            else:
                op = ('i', rng.choice(keys), vals.next(), charge_fn())
        elif j < sum(w[:4]):
            if r < 5 and pinned:
                k = rng.choice(pinned)
            elif r < 8 and idle:
                k = rng.choice(idle)
            else:
                k = rng.choice(keys)
            op = ('e', k)
        elif j < sum(w[:5]):
            if (pinned and idle) or rng.chance(1, 3):
                op = ('p',)
            elif live:
                op = ('r', rng.choice(live))
            else:
                op = ('l', rng.choice(keys))
        elif j < sum(w[:6]):
            op = ('t',)
        elif j < sum(w[:7]):
            op = ('v', rng.choice(live)) if live else ('t',)
        else:
            op = ('n',)
        r = sim.apply(op)
        assert r is not None
        ops.append(op)
    return ops


# ------------------------------------------------------------------ lc-one-shard
def gen_one_shard(rng, n, suite='lc-one-shard'):
    cases = []
    total = _events(suite)
    for _ in range(n):
        sh = rng.below(NSHARDS)
        nk = rng.range(2, 6)
        keys = []
        while len(keys) < nk:
            k = rng.choice(POOLS[sh])
            if k not in keys:
                keys.append(k)
        stray = [k for k in POOLS[sh] if k not in keys][:3] + [rng.choice(POOLS[(sh + 1) % NSHARDS])]
        pc = rng.choice([0, 1, 1, 2, 2, 3, 3, 4, 5, 6, 7, 8])
        capacity = 0 if pc == 0 else rng.range(16 * (pc - 1) + 1, 16 * pc)
        style = rng.below(4)

        def charge_fn():
            if style == 0:
                return 1
            c = rng.choice([0, 1, 1, 2, 3, -1])
            if c < 0:
                c = rng.choice(BIG_CHARGES) if rng.chance(2, 3) else pc + rng.choice([0, 1])
            return c
        nops = rng.range(10, 40) if rng.chance(1, 3) else rng.range(40, 120)
        ev = Counter()
        sim = RefCache(capacity, ev)
        # how long handles are kept differs from script to script (few outstanding handles: evictions and
        # revivals; many: everything pinned, usage above capacity)
        w = (24, 18, rng.choice([28, 38, 50, 60]), 8, 6, 4, 4, 2)
        ops = walk(rng, sim, keys, nops, charge_fn, Vals(rng), [], stray=stray, w=w)
        total.update(ev)
        cases.append(Case(suite, lru_req(capacity, ops), oracle=lru_oracle(capacity, ops),
                          meta={'shard': sh, 'per_shard_capacity': pc, 'events': dict(ev)}))
    return cases


# ------------------------------------------------------------------ lc-spread
def spread_keys(rng):
    """random keys of 0..12 bytes (with the empty key), file-number keys, cache_id||offset keys, a long key"""
    ks = [b'']
    for _ in range(rng.range(2, 14)):
        ks.append(rng.bytes(rng.range(0, 12)))
    for _ in range(rng.range(0, 5)):
        ks.append(fixed64(rng.range(1, 40)))
    for _ in range(rng.range(0, 5)):
        ks.append(fixed64(rng.range(1, 4)) + fixed64(rng.choice([0, 4101, 8207, 1 << 32])))
    if rng.chance(1, 6):
        ks.append(proto.parse_bytes('@%d~%d' % (rng.below(100), rng.choice([41, 100, 300]))))
    out = []
    for k in ks:
        if k not in out:
            out.append(k)
    return out


def block_charge(rng):
    return rng.choice([1, 1, 37, 64, 4096, 4101, 4096 - 5])


def table_cache_stream(rng, sim, vals, ops, steps):
    """table_cache.c: find_table = lookup; on a miss insert with charge 1; value; release -- or keep the handle
    for as long as an iterator lives; ldb_tables_evict = erase, also under a live iterator"""
    files = sorted({rng.range(1, 40) for _ in range(rng.range(2, 12))})
    iters = []

    def do(op):
        r = sim.apply(op)
        assert r is not None
        ops.append(op)
        return r[0]
    for _ in range(steps):
        j = rng.below(100)
        if j < 66:
            key = fixed64(rng.choice(files))
            res = do(('l', key))
            if res == '-':
                res = do(('i', key, vals.next(), 1))
            h = int(res.split('=')[0])
            do(('v', h))
            if rng.chance(3, 10):
                iters.append((h, key))
            else:
                do(('r', h))
        elif j < 80:
            if iters:
                h, _ = iters.pop(rng.below(len(iters)))
                do(('r', h))
        elif j < 94:
            if iters and rng.chance(1, 2):
                do(('e', rng.choice(iters)[1]))         # evict a file an iterator still reads
            else:
                do(('e', fixed64(rng.choice(files))))
        else:
            do(('t',))


def block_cache_stream(rng, sim, vals, ops, steps):
    """table.c ldb_table_blockreader: key = cache_id || offset (cache_id from ldb_lru_id at table open);
    lookup; on a miss insert with the block size as charge; the handle lives as long as the block iterator"""
    tables = []
    iters = []

    def do(op):
        r = sim.apply(op)
        assert r is not None
        ops.append(op)
        return r[0]
    for _ in range(steps):
        j = rng.below(100)
        if not tables or (j < 8 and len(tables) < 5):
            cid = int(do(('n',)))
            tables.append((cid, [x * rng.choice([4101, 4096, 517]) for x in range(rng.range(1, 6))]))
        elif j < 75:
            cid, offs = rng.choice(tables)
            key = fixed64(cid) + fixed64(rng.choice(offs))
            res = do(('l', key))
            if res == '-':
                res = do(('i', key, vals.next(), block_charge(rng)))
            h = int(res.split('=')[0])
            do(('v', h))
            if rng.chance(1, 3):
                iters.append(h)
            else:
                do(('r', h))
        elif j < 90:
            if iters:
                do(('r', iters.pop(rng.below(len(iters)))))
        elif j < 95:
            do(('t',))
        else:
            do(('p',))


def gen_spread(rng, n, suite='lc-spread'):
    cases = []
    total = _events(suite)
    for i in range(n):
        c = rng.below(20)
        if c < 2:
            capacity = 0
        elif c < 8:
            capacity = rng.range(1, 16)
        elif c < 18:
            capacity = rng.range(17, 200)
        else:
            capacity = rng.choice([4096 * 16, 4096 * 40, 8 << 20])
        ev = Counter()
        sim = RefCache(capacity, ev)
        vals = Vals(rng)
        ops = []
        mode = i % 4
        if mode == 0 or mode == 3:
            keys = spread_keys(rng)
            blocky = rng.chance(1, 3)
            walk(rng, sim, keys, rng.range(5, 100), (lambda: block_charge(rng)) if blocky else (lambda: 1), vals, ops,
                 stray=[rng.bytes(3)], w=(24, 20, 27, 8, 4, 6, 5, 6))
        if mode == 1 or mode == 3:
            table_cache_stream(rng, sim, vals, ops, rng.range(5, 50))
        if mode == 2 or mode == 3:
            block_cache_stream(rng, sim, vals, ops, rng.range(5, 50))
        total.update(ev)
        cases.append(Case(suite, lru_req(capacity, ops), oracle=lru_oracle(capacity, ops), meta={'events': dict(ev)}))
    return cases


# ------------------------------------------------------------------ lc-misuse
def gen_misuse(rng, n, suite='lc-misuse'):
    """a well-formed script with one release / value of a handle number that is not outstanding at that point
    (already released, not yet handed out, never handed out); what follows is never executed"""
    cases = []
    total = _events(suite)
    for i in range(n):
        capacity = rng.choice([0, 5, 16, 40, 100])
        sim = RefCache(capacity)
        vals = Vals(rng)
        keys = spread_keys(rng)[:6] if i % 2 else [rng.choice(POOLS[3]) for _ in range(3)]
        pre = walk(rng, sim, keys, rng.range(0, 30), lambda: rng.choice([1, 1, 2, 50]), vals, [])
        released = [h for h, (e, live) in enumerate(sim.handles) if not live]
        nh = len(sim.handles)
        j = rng.below(10)
        if j < 5 and released:
            bad, what = rng.choice(released), 'already released'
        elif j < 8:
            bad, what = nh + rng.below(3), 'not handed out yet'
        else:
            bad, what = rng.choice([8191, 8192, 100000, (1 << 31) - 1]), 'never handed out'
        kind = rng.choice(['r', 'r', 'v'])
        total['%s of a handle %s' % ('release' if kind == 'r' else 'value', what)] += 1
        post = walk(rng, sim, keys, rng.range(0, 8), lambda: 1, vals, [])
        ops = pre + [(kind, bad)] + post
        cases.append(Case(suite, lru_req(capacity, ops), oracle=lru_oracle(capacity, ops), meta={'bad': (kind, bad, what)}))
    return cases


# ------------------------------------------------------------------ lc-malformed
BAD_LINES = [
    'lru 16', 'lru +16 t', 'lru x t', 'lru -1 t', 'lru 4294967296 t', 'lru 16 t t', 'lru i:61:5:1',
    'lru 16 i:61:5:1,,t', 'lru 16 ,t', 'lru 16 t,', 'lru 16 i:61:5', 'lru 16 i:61', 'lru 16 i', 'lru 16 i:6:5:1',
    'lru 16 i:zz:5:1', 'lru 16 i:61:2147483648:1', 'lru 16 i:61:1:4294967296', 'lru 16 i:61:-1:1', 'lru 16 i:61:5:1:1',
    'lru 16 i:61:0x5:1', 'lru 16 i:61:5:x', 'lru 16 i:61::1', 'lru 16 q', 'lru 16 T', 'lru 16 P', 'lru 16 N', 'lru 16 R:0',
    'lru 16 V:0', 'lru 16 r:x', 'lru 16 r', 'lru 16 r:', 'lru 16 r:-1', 'lru 16 r:2147483648', 'lru 16 v:2147483648', 'lru 16 r:0:0',
    'lru 16 p:1', 'lru 16 t:1', 'lru 16 n:', 'lru 16 l', 'lru 16 e', 'lru 16 l:6', 'lru 16 e:6g', 'lru 16 l:61:62', 'lru 16 i:61:5:1;t',
    'htab', 'htab i:61:1', 'htab i:61:1:1:1', 'htab i:61:4294967296:1', 'htab i:61:1:2147483648', 'htab i:61:x:1', 'htab i:61:1:x',
    'htab x:61:1', 'htab r:61', 'htab l:61', 'htab l:61:1:1', 'htab r:61:4294967296', 'htab l:61:-1', 'htab i:61:1:1,', 'htab ,i:61:1:1',
    'lru 1_6 t', 'lru 16 r:0000000000000000000000', 'lru 16 i:61:1_0:1', 'lru 16 i:61:1:0000000000000000001', 'htab i:61:1_0:1',
    'htab i:zz:1:1', 'htab i:6:1:1', 'htab p', 'htab t', 'htab i:61:1:1 l:61:1', 'lruhash', 'lruhash 6', 'lruhash zz', 'lruhash 61 62',
]


def gen_malformed(rng, n, suite='lc-malformed'):
    """syntactically broken lines: both sides must answer bad-op.  Half from the list, half a valid script with
    one op broken"""
    cases = []

    def oracle(resp):
        return None if resp == 'bad-op' else 'expected bad-op, got %s' % resp[:80]
    for i in range(n):
        if i < len(BAD_LINES) or i % 2 == 0:
            req = BAD_LINES[i % len(BAD_LINES)]
        else:
            sim = RefCache(16)
            ops = [op_str(o) for o in walk(rng, sim, [b'a', b'b', b''], rng.range(1, 12), lambda: 1, Vals(rng), [])]
            p = rng.below(len(ops))
            f = ops[p].split(':')
            j = rng.below(9)
            cap = '%d' % rng.choice([0, 16, 100])
            if j == 0:
                ops[p] = ':'.join(f[:-1]) if len(f) > 1 else ''
            elif j == 1:
                ops[p] = ops[p] + ':1'
            elif j == 2:
                ops[p] = ':'.join([rng.choice(['x', 'I', 'L', 'R', 'E', 'ii', ''])] + f[1:])
            elif j == 3:
                ops[p] = 'l:' + rng.choice(['6', 'g1', '6 1', '6-', '--', '@1', '=61', '%1~2'])
            elif j == 4:
                ops[p] = 'i:61:%d:1' % rng.choice([1 << 31, 1 << 32, 10 ** 17])
            elif j == 5:
                ops[p] = 'i:61:1:%d' % rng.choice([1 << 32, (1 << 32) + 5, 10 ** 17])
            elif j == 6:
                ops.insert(p, '')
            elif j == 7:
                ops[p] = rng.choice(['r:', 'v:-0', 'r:1x', 'v:+1', 'r: 1'])
            else:
                cap = rng.choice(['x', '-', '1.5', '4294967296', '-16', '0x10', ''])
            req = 'lru %s %s' % (cap, ','.join(ops))
        cases.append(Case(suite, req, oracle=oracle))
    return cases


# ------------------------------------------------------------------ lc-htable
HKEYS = [b'', b'a', b'b', b'ab', b'a\x00', b'\x00', b'abcdefgh', b'\xff']


def htab_oracle(ops):
    """a dict keyed by (key, hash) predicts every result; elems, length, bucket membership"""
    def oracle(resp):
        d = {}
        length = 4
        exp = []
        for o in ops:
            kh = (o[1], o[2])
            if o[0] == 'i':
                old = d.get(kh)
                exp.append('-' if old is None else '%d' % old)
                d[kh] = o[3]
                if old is None and len(d) > length:
                    length = 4
                    while length < len(d):
                        length *= 2
            elif o[0] == 'r':
                old = d.pop(kh, None)
                exp.append('-' if old is None else '%d' % old)
            else:
                old = d.get(kh)
                exp.append('-' if old is None else '%d' % old)
        parts = resp.split(' ')
        if len(parts) != 4:
            return 'unparsable response %s' % resp[:100]
        got = [] if parts[0] == '.' else parts[0].split(';')
        if len(got) != len(exp):
            return 'wrong number of results'
        for i, (g, e) in enumerate(zip(got, exp)):
            if g != e:
                return 'op %d (%s): the table answers %s, a map keyed by (key, hash) answers %s' % (i, htab_op_str(ops[i]), g, e)
        if int(parts[2]) != len(d):
            return 'elems = %s, the map has %d entries' % (parts[2], len(d))
        if int(parts[1]) != length:
            return 'length = %s, expected %d (4, then the smallest power of two >= elems whenever elems > length)' % (parts[1], length)
        buckets = parts[3].split(',')
        if len(buckets) != length:
            return '%d buckets dumped, length is %d' % (len(buckets), length)
        byid = {v: kh for kh, v in d.items()}
        seen = []
        for b, chain in enumerate(buckets):
            for x in _parse_dl(chain):
                if x not in byid:
                    return 'id %d in the dump is not in the map' % x
                if byid[x][1] & (length - 1) != b:
                    return 'id %d (hash %d) sits in bucket %d, expected %d' % (x, byid[x][1], b, byid[x][1] & (length - 1))
                seen.append(x)
        if sorted(seen) != sorted(byid):
            return 'the chains hold %d nodes, the map %d (lost or duplicated: %s)' % (
                len(seen), len(byid), sorted(set(byid) ^ set(seen))[:8] or sorted(x for x in seen if seen.count(x) > 1)[:8])
        return None
    return oracle


def htab_op_str(o):
    if o[0] == 'i':
        return 'i:%s:%d:%d' % (proto.arg(o[1]), o[2], o[3])
    return '%s:%s:%d' % (o[0], proto.arg(o[1]), o[2])


def gen_htable(rng, n, suite='lc-htable'):
    cases = []
    total = _events(suite)
    for i in range(n):
        base = rng.choice([0, 1, 2, 3, 5, 7, 0xfffffffc, 0xffffffff, rng.below(1 << 32)])
        mode = i % 5
        if mode == 0:       # few hashes colliding mod 4 / 8 / 16 (and in the high bit), few keys
            hs = [(base + rng.choice([4, 8, 16, 32, 64, 1 << 31, (1 << 31) + 4]) * rng.below(4)) & M32 for _ in range(rng.range(2, 5))]
            ks = [rng.choice(HKEYS) for _ in range(rng.range(1, 4))]
        elif mode == 1:     # the same key under many hashes
            ks = [rng.choice(HKEYS)]
            hs = [(base + j * rng.choice([1, 4, 4, 8, 16])) & M32 for j in range(rng.range(2, 45))]
        elif mode == 2:     # the same hash under many keys
            hs = [base]
            ks = HKEYS + [rng.bytes(rng.range(1, 6)) for _ in range(rng.range(0, 40))]
        elif mode == 3:     # growth: many distinct pairs
            hs = [(base + j * rng.choice([1, 1, 3, 4, 64])) & M32 for j in range(rng.range(10, 80))]
            ks = [rng.choice(HKEYS) for _ in range(rng.range(1, 3))]
        else:
            hs = [rng.below(1 << 32) for _ in range(rng.range(1, 20))] + [base, (base + 4) & M32]
            ks = [rng.choice(HKEYS) for _ in range(rng.range(1, 5))]
        pairs = sorted({(k, h) for k in ks for h in hs})
        nops = rng.range(1, 80)
        grow = mode in (1, 2, 3) and rng.chance(2, 3)
        d = {}
        length = 4
        nid = rng.choice([0, 1, 1000, (1 << 31) - 200])
        ops = []
        for _ in range(nops):
            present = sorted(d)
            absent = [p for p in pairs if p not in d]
            j = rng.below(100)
            if j < (75 if grow else 40):
                if absent and (grow or rng.chance(2, 3)):
                    p = rng.choice(absent)
                elif present:
                    p = rng.choice(present)
                    total['re-insert of a present node'] += 1
                else:
                    p = rng.choice(pairs)
                if p not in d and len(d) + 1 > length:
                    while length < len(d) + 1:
                        length *= 2
                    total['resize to %d' % length] += 1
                d[p] = nid
                ops.append(('i', p[0], p[1], nid))
                nid += 1
            elif j < (85 if grow else 70):
                if present and rng.chance(3, 4):
                    p = rng.choice(present)
                    total['remove of a present node'] += 1
                    del d[p]
                else:
                    p = rng.choice(absent) if absent else (rng.choice(HKEYS), rng.below(1 << 32))
                    total['remove of an absent node'] += 1
                    d.pop(p, None)
                ops.append(('r', p[0], p[1]))
            else:
                p = rng.choice(present) if present and rng.chance(2, 3) else rng.choice(pairs)
                ops.append(('l', p[0], p[1]))
        cases.append(Case(suite, 'htab ' + ','.join(htab_op_str(o) for o in ops), oracle=htab_oracle(ops)))
    return cases


# ------------------------------------------------------------------ lrux (model only)
def lrux_expected(cap, ops):
    """one shard, entry ids; `fault` exactly at the first release/value of an id the client does not hold"""
    s = RefShard(cap)
    ents = []
    held = Counter()
    out = []
    deleted = []
    for o in ops:
        k = o[0]
        if k == 'i':
            e, dels = s.insert(o[1], o[2], o[3])
            ents.append(e)
            held[e.eid] += 1
            out.append('h%d' % e.eid)
            deleted += [d.val for d in dels]
        elif k == 'l':
            e = s.lookup(o[1])
            if e is None:
                out.append('-')
            else:
                held[e.eid] += 1
                out.append('h%d' % e.eid)
        elif k in ('R', 'V'):
            if held[o[1]] <= 0:
                out.append('fault')
                return ';'.join(out)
            if k == 'V':
                out.append('%d' % ents[o[1]].val)
            else:
                held[o[1]] -= 1
                deleted += [d.val for d in s.release(ents[o[1]])]
                out.append('ok')
        elif k == 'e':
            deleted += [d.val for d in s.erase(o[1])]
            out.append('ok')
        elif k == 'p':
            deleted += [d.val for d in s.prune()]
            out.append('ok')
        else:
            out.append('%d' % s.usage)
    out.append('held=%d,deleted=%s' % (sum(held.values()), _dl(deleted)))
    return ';'.join(out)


def lrux_op_str(o):
    if o[0] == 'i':
        return 'i:%s:%d:%d' % (proto.arg(o[1]), o[2], o[3])
    if o[0] in ('l', 'e'):
        return '%s:%s' % (o[0], proto.arg(o[1]))
    if o[0] in ('R', 'V'):
        return '%s:%d' % (o[0], o[1])
    return o[0]


def gen_lrux(rng, n):
    """-> [(request, oracle)]: mostly well-formed single-shard scripts with, in two of three, one client error
    somewhere: a release after the final release, of an id never handed out, a value of a released id, a release
    of an id whose entry the deleter already saw"""
    out = []
    total = _events('lrux (model only)')
    for i in range(n):
        cap = rng.choice([0, 1, 2, 3, 5, 8, 100])
        keys = [rng.choice(HKEYS) for _ in range(rng.range(1, 5))]
        vals = Vals(rng)
        s = RefShard(cap)
        ents, held, ops = [], Counter(), []
        nops = rng.range(0, 60)
        bad_at = rng.below(nops + 1) if i % 3 else -1
        faulted = False
        for p in range(nops + 1):
            holding = sorted(x for x in held if held[x] > 0)
            if p == bad_at:
                notheld = [e.eid for e in ents if held[e.eid] <= 0]
                j = rng.below(10)
                if j < 6 and notheld:
                    bad, what = rng.choice(notheld), 'released id'
                elif j < 9:
                    bad, what = len(ents) + rng.below(3), 'id never handed out'
                else:
                    bad, what = rng.choice([1 << 20, 1 << 40]), 'id never handed out'
                kind = rng.choice(['R', 'R', 'V'])
                total['%s of a %s' % ('release' if kind == 'R' else 'value', what)] += 1
                ops.append((kind, bad))
                faulted = True
                continue
            if p == nops:
                break
            j = rng.below(100)
            if j < 25 or not ents:
                o = ('i', rng.choice(keys), vals.next(), rng.choice([0, 1, 1, 2, 3, 1000]))
            elif j < 45:
                o = ('l', rng.choice(keys))
            elif j < 72 and holding:
                o = ('R', rng.choice(holding))
            elif j < 80:
                o = ('e', rng.choice(keys))
            elif j < 85:
                o = ('p',)
            elif j < 92 and holding:
                o = ('V', rng.choice(holding))
            else:
                o = ('t',)
            ops.append(o)
            if faulted:
                continue
            if o[0] == 'i':
                e, _ = s.insert(o[1], o[2], o[3])
                ents.append(e)
                held[e.eid] += 1
            elif o[0] == 'l':
                e = s.lookup(o[1])
                if e is not None:
                    held[e.eid] += 1
            elif o[0] == 'R':
                held[o[1]] -= 1
                s.release(ents[o[1]])
            elif o[0] == 'e':
                s.erase(o[1])
            elif o[0] == 'p':
                s.prune()
        if not faulted:
            total['well-formed'] += 1
        want = lrux_expected(cap, ops)
        req = 'lrux %d %s' % (cap, ','.join(lrux_op_str(o) for o in ops) if ops else '.')

        def oracle(resp, want=want):
            if resp == want:
                return None
            if resp is None:
                return 'no answer'
            wf, gf = want.endswith('fault'), resp.endswith('fault')
            if wf != gf or (wf and want.count(';') != resp.count(';')):
                return 'lrux: the model faults %s, the script first misuses a handle %s' % (
                    'at op %d' % resp.count(';') if gf else 'nowhere', 'at op %d' % want.count(';') if wf else 'nowhere')
            return 'lrux: answers differ from the reference: expected %s got %s' % (want[-200:], resp[-200:])
        out.append((req, oracle))
    return out


# ------------------------------------------------------------------ hash self-test
def gen_hash_selftest(rng, n):
    """-> [(request, expected)]: the Python ldb_hash against `lruhash` of both sides"""
    out = []
    keys = [b'', b'a', b'ab', b'abc', b'abcd', b'abcde', b'\xff\xff\xff\xff', b'\x80\x80\x80', fixed64(1), fixed64(1) + fixed64(4101)]
    keys += [k for p in POOLS for k in p[:3]]
    while len(keys) < n:
        keys.append(rng.bytes(rng.range(0, 20)))
    for k in keys[:n]:
        h = ldb_hash(k, 0)
        out.append(('lruhash %s' % proto.arg(k), '%d %d' % (h, h >> 28)))
    return out


# ------------------------------------------------------------------ the slice's whole stream
def gen_cache(rng, n):
    n1 = n * 45 // 100
    n2 = n * 25 // 100
    n3 = n * 20 // 100
    n4 = n * 5 // 100
    return (gen_one_shard(rng.fork('one'), n1) + gen_spread(rng.fork('spread'), n2) + gen_htable(rng.fork('htab'), n3)
            + gen_misuse(rng.fork('misuse'), n4) + gen_malformed(rng.fork('bad'), max(n - n1 - n2 - n3 - n4, 0)))
