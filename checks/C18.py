"""C18 — decoders are total and memory-safe on arbitrary bytes."""
import vlib, gens, gens_block, gens_filter, gens_snappy
from common import Case, lean_stage, run_cases, load_corpus
from vlib import Check, Rng

PID = 'C18'
THEOREMS = [
    'Lcdb.blockIter_no_fault', 'Lcdb.blockIter_status_sticky', 'Lcdb.filter_no_fault', 'Lcdb.filterMatch_total', 'Lcdb.bloomMatch_total',
    'Lcdb.Snappy.snappy_decode_safe', 'Lcdb.Snappy.decodeElem_safe', 'Lcdb.Snappy.decode_rejects_large',
    'Lcdb.C17.decode_total', 'Lcdb.C17.editDecodeGo_fuel', 'Lcdb.C04.iterate_total', 'Lcdb.C04.short_rejected', 'Lcdb.C15.read_sound',
    'Lcdb.TableProps.table_no_fault', 'Lcdb.TableProps.readBlock_total', 'Lcdb.TableProps.tableIter_status_sticky',
    'Lcdb.varint32Read_consumes', 'Lcdb.varint64Read_consumes', 'Lcdb.sliceRead_consumes', 'Lcdb.C20.parse_sound', 'Lcdb.footerRead_some_iff_magic',
]
IMPORTS = ['LcdbModel.Props.C18']
TARGETS = ['LcdbModel.Props.C18']
EXCLUDE = ['util/crc32c.c']


def run(tier):
    chk = Check(PID, tier)
    rng = Rng(chk.seed).fork(PID)
    unit = vlib.build_harness('unit', 'asan', exclude=EXCLUDE)
    lean_stage(chk, THEOREMS, IMPORTS, TARGETS)
    big = tier == 'thorough'
    m = 1 if not big else 6
    cases = [Case('corpus', r) for r in load_corpus(PID)]
    cases += gens_block.gen_block_malformed(rng.fork('bm'), 500 * m) + gens_block.gen_block_mut_built(rng.fork('bmb'), 250 * m) + gens_block.gen_block_crafted(rng.fork('bc'), 300 * m)
    cases += gens_filter.gen_bloom_malformed(rng.fork('blm'), 200 * m) + gens_filter.gen_filter_malformed(rng.fork('fm'), 300 * m) + gens_filter.gen_handle_footer_malformed(rng.fork('hfm'), 200 * m)
    cases += gens_snappy.gen_snappy_dec(rng.fork('sd'), 400 * m) + gens_snappy.gen_snappy_dsize(rng.fork('sds'), 150 * m)
    cases += gens.gen_edit_arbitrary(rng.fork('edit'), 500 * m)
    cases += [c for c in gens.gen_batch(rng.fork('batch'), 120 * m) if c.suite in ('batch-iter-arbitrary', 'batch-mutate', 'batch-truncate')]
    cases += [c for c in gens.gen_varint(rng.fork('vi'), 0, 0, 500 * m)]
    cases += gens.gen_fname(rng.fork('fn'), 150 * m, 2)
    import C15
    logc = [c for c in C15.gen('quick', rng.fork('log')) if c.suite in ('logr-arbitrary', 'log-alter')][:400 * m]
    for c in logc:
        c.oracle = None      # the C15 oracles (drop reporting) belong to C15; here only faults and model agreement count
    cases += logc
    import gens_table
    tm = [c for c in gens_table.gen_table_mut(rng.fork('tm'), 400 * m) if c.suite in ('table-mut-lax', 'table-mut-strict', 'table-mut-footer')] + gens_table.gen_table_misc(rng.fork('tmisc'), 40 * m)
    for c in tm:
        c.oracle = None          # right-answer-or-error is C11; here only faults and agreement with the model
    cases += tm
    chk.rules.append('every decoder entry point (varint/slice, log reader, write batch, version edit, block init/iterator incl. restart search, filter reader, bloom match, handle/footer, '
                     'Snappy decoder, file-name parser, table reader when present) fed random bytes, structure-aware mutations of valid encodings (length fields, varints, restart arrays, handles, '
                     'counts, offsets at boundary values), truncations and hand-crafted header combinations; the ASan+UBSan build must not fault, must terminate, and must agree with the Lean model '
                     'on outcome class and decoded output; non-trivial = response not empty/fail, distinct = distinct (suite, response)')
    run_cases(chk, cases, unit)
    import wl_checks
    wl_checks.c18_part(chk, tier, rng)
    chk.assumptions += ['a removed C guard is detected only if some generated input needs it (the model keeps the guard): sanitizer-backed differential testing, not a proof about the C text']
    return chk.finish()


def replay(path):
    import json
    rp = json.load(open(path))
    if 'forge' in rp:
        fbin = vlib.build_harness('forge', 'asan', exclude=[])
        print(vlib.serve(fbin, [rp['forge']], vlib.asan_env())[0])
        return 0
    unit = vlib.build_harness('unit', 'asan', exclude=EXCLUDE)
    print(vlib.serve(unit, [rp['request']], vlib.asan_env())[0])
    return 0
