"""C01 — Reads return the latest write: trace validation of real histories against the Lsm model + theorems over the model."""
import wlcheck

PID = 'C01'
TAGS = set('get,snapget,step,inv,mem,recover'.split(','))
THEOREMS = []
IMPORTS = ['LcdbModel.Props.C01']
TARGETS = ['LcdbModel.Props.C01']


def run(tier):
    return wlcheck.run(PID, tier, TAGS, THEOREMS, IMPORTS, TARGETS)


def replay(path):
    return wlcheck.replay(PID, path)
