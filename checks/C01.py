"""C01 — Reads return the latest write: trace validation of real histories against the Lsm model + theorems over the model."""
import wlcheck

PID = 'C01'
TAGS = set('get,snapget,step,inv,mem,recover'.split(','))
THEOREMS = [
    'Lcdb.C01.get_eq_view',
    'Lcdb.C01.getEntry_eq_newestVisible',
    'Lcdb.C01.runGet_eq_newest',
    'Lcdb.C01.levelGet_eq_lookup_concat',
    'Lcdb.C01.l0_search_eq',
    'Lcdb.C01.firstHit_eq_newest',
    'Lcdb.C01.get_latest_write',
    'Lcdb.C01.get_absent',
    'Lcdb.C01.invCheck_sound',
    'Lcdb.C01.get_eq_view_examples',
    'Lcdb.C06.history_refines',
    'Lcdb.C06.background_preserves_view',
    'Lcdb.C14.step_preserves_inv',
]
IMPORTS = ['LcdbModel.Props.C01', 'LcdbModel.Props.C06']
TARGETS = ['LcdbModel.Props.C01', 'LcdbModel.Props.C06']


def run(tier):
    return wlcheck.run(PID, tier, TAGS, THEOREMS, IMPORTS, TARGETS)


def replay(path):
    return wlcheck.replay(PID, path)
