"""C01 — Reads return the latest write: trace validation of real histories against the Lsm model + theorems over the model."""
import wlcheck

PID = 'C01'
TAGS = set('get,snapget,step,inv,mem,recover,droploop,csnap,inputs,picklevel'.split(','))
THEOREMS = [
    'Lcdb.C01.get_eq_view',
    'Lcdb.C01.getEntry_eq_newestVisible',
    'Lcdb.C01.runGet_eq_newest',
    'Lcdb.C01.levelGet_eq_lookup_concat',
    'Lcdb.C01.l0_search_eq',
    'Lcdb.C01.firstHit_eq_newest',
    'Lcdb.C01.get_latest_write',
    'Lcdb.C01.get_absent',
    'Lcdb.C01.invCheck_sound',
    'Lcdb.C01.get_eq_view_examples',
    'Lcdb.C06.history_refines',
    'Lcdb.C06.background_preserves_view',
    'Lcdb.C14.step_preserves_inv',
    'Lcdb.Compaction.mergeInputs_sorted_perm',
    'Lcdb.Compaction.mergeInputs_eq_mergedRun',
    'Lcdb.Compaction.inputIter_walks_mergeInputs',
    'Lcdb.Compaction.dropLoop_sublist',
    'Lcdb.Compaction.dropLoopPtr_eq_dropLoop',
    'Lcdb.Compaction.expectedOutput_eq_spec',
    'Lcdb.Compaction.dropLoop_sameAnswer',
    'Lcdb.Compaction.dropLoop_not_newer',
    'Lcdb.Compaction.expectedOutput_sameAnswer',
    'Lcdb.Compaction.expectedOutput_meets_contract',
    'Lcdb.Compaction.mechanism_stepOk',
    'Lcdb.Compaction.mechanism_preserves_view',
    'Lcdb.Compaction.dropLoop_not_safe_below_smallest',
]
IMPORTS = ['LcdbModel.Props.CompactionProps', 'LcdbModel.Props.C01', 'LcdbModel.Props.C06']
TARGETS = ['LcdbModel.Props.CompactionProps', 'LcdbModel.Props.C01', 'LcdbModel.Props.C06']


def run(tier):
    return wlcheck.run(PID, tier, TAGS, THEOREMS, IMPORTS, TARGETS)


def replay(path):
    return wlcheck.replay(PID, path)
