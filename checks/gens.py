"""Request generators (with direct property oracles) for the function-level suites shared by several properties."""
import re
import proto
from common import Case

BOUNDS = [0, 1, 127, 128, 129, 255, 256, 16383, 16384, 16385, 2097151, 2097152, 268435455, 268435456,
          (1 << 32) - 1, 1 << 32, (1 << 35) - 1, 1 << 35, (1 << 42) - 1, 1 << 42, (1 << 49) - 1, 1 << 49,
          (1 << 56) - 1, 1 << 56, (1 << 63) - 1, 1 << 63, (1 << 64) - 1]


def py_varint(n):
    out = bytearray()
    while n >= 128:
        out.append((n & 127) | 128)
        n >>= 7
    out.append(n)
    return bytes(out)


def rand_u(rng, bits):
    k = rng.below(10)
    if k < 3:
        return rng.choice([b for b in BOUNDS if b < (1 << bits)])
    if k < 6:
        return rng.below(1 << rng.range(1, bits)) % (1 << bits)
    b = rng.choice([b for b in BOUNDS if b < (1 << bits)])
    return max(0, min((1 << bits) - 1, b + rng.range(-3, 3)))


def gen_varint(rng, n32, n64, ndec):
    cases = []
    for _ in range(n32):
        v = rand_u(rng, 32)

        def orc(resp, v=v):
            return None if resp == proto.arg(py_varint(v)) else 'varint32 encoding of %d is %s, standard is %s' % (v, resp, py_varint(v).hex())
        cases.append(Case('varint-enc', 'v32enc %d' % v, oracle=orc))

        def orc2(resp, v=v):
            return None if resp == 'ok %d 0' % v else 'varint32 round trip of %d gives %s' % (v, resp)
        cases.append(Case('varint-dec', 'v32dec %s' % py_varint(v).hex(), oracle=orc2))
    for _ in range(n64):
        v = rand_u(rng, 64)

        def orc(resp, v=v):
            return None if resp == proto.arg(py_varint(v)) else 'varint64 encoding of %d is %s, standard is %s' % (v, resp, py_varint(v).hex())
        cases.append(Case('varint-enc', 'v64enc %d' % v, oracle=orc))

        def orc2(resp, v=v):
            return None if resp == 'ok %d 0' % v else 'varint64 round trip of %d gives %s' % (v, resp)
        cases.append(Case('varint-dec', 'v64dec %s' % py_varint(v).hex(), oracle=orc2))
        cases.append(Case('fixed', 'f64 %d' % v, oracle=lambda r, v=v: None if r == '%s %d' % (v.to_bytes(8, 'little').hex(), v) else 'fixed64 of %d gives %s' % (v, r)))
        cases.append(Case('fixed', 'f32 %d' % (v % (1 << 32)), oracle=lambda r, v=v % (1 << 32): None if r == '%s %d' % (v.to_bytes(4, 'little').hex(), v) else 'fixed32 of %d gives %s' % (v, r)))
    # arbitrary / malformed decodes (model correspondence only)
    for _ in range(ndec):
        k = rng.below(4)
        n = rng.below(13)
        if k == 0:
            b = rng.bytes(n)
        elif k == 1:
            b = bytes([0x80 | rng.below(128) for _ in range(n)])
        elif k == 2:
            b = bytes([0x80 | rng.below(128) for _ in range(rng.below(11))]) + bytes([rng.below(128)]) + rng.bytes(rng.below(3))
        else:
            b = bytes([0xff] * rng.below(11)) + bytes([rng.choice([0, 1, 0x7f, 0x0f, 0x10])])
        cases.append(Case('varint-dec-arbitrary', '%s %s' % (rng.choice(['v32dec', 'v64dec', 'slice']), proto.arg(b))))
    return cases


def rand_key(rng, maxlen=24):
    k = rng.below(10)
    if k == 0:
        return b''
    if k < 4:
        return bytes([rng.choice([0x61, 0x62, 0x63]) for _ in range(rng.range(1, 4))])
    if k < 6:
        return bytes([0xff] * rng.range(1, 4)) + rng.bytes(rng.below(3))
    if k < 8:
        return b'key' + rng.bytes(rng.below(4))
    return rng.bytes(rng.below(maxlen))


def rand_val_arg(rng, big=False):
    k = rng.below(10)
    if k < 5:
        return proto.arg(rng.bytes(rng.below(20)))
    if k < 8:
        return '@%d~%d' % (rng.below(1 << 20), rng.below(300))
    return '@%d~%d' % (rng.below(1 << 20), rng.below(200000 if big else 40000))


def gen_ops(rng, n, big=False):
    """returns (ops argument string, list of canonical op strings)"""
    parts, shown = [], []
    for _ in range(n):
        k = rand_key(rng)
        if rng.chance(7, 10):
            va = rand_val_arg(rng, big)
            parts.append('p:%s:%s' % (proto.arg(k), va))
            shown.append('p:%s:%s' % (proto.show_bytes(k), proto.show_bytes(proto.parse_bytes(va))))
        else:
            parts.append('d:%s' % proto.arg(k))
            shown.append('d:%s' % proto.show_bytes(k))
    return (','.join(parts) if parts else '.'), shown


def gen_batch(rng, n, big=False):
    cases = []
    for _ in range(n):
        cnt = rng.choice([0, 1, 1, 2, 3, rng.below(12), rng.below(60)])
        ops, shown = gen_ops(rng, cnt, big)
        seq = rand_u(rng, 56)
        cases.append(Case('batch-enc', 'benc %d %s' % (seq, ops)))
        cnt2 = rng.choice([0, 1, 2, rng.below(10)])
        ops2, shown2 = gen_ops(rng, cnt2, big)
        seq2 = rand_u(rng, 56)

        def app_oracle(resp, shown=shown, shown2=shown2, seq=seq):
            f = resp.split(' ')
            allops = shown + shown2
            exp = 'ok %s seq=%d count=%d' % (','.join(allops) if allops else '.', seq, len(allops))
            got = ' '.join(f[1:])
            return None if got == exp else 'appending a batch of %d ops to one of %d ops: expected %s, got %s' % (len(shown2), len(shown), exp[:160], got[:160])
        cases.append(Case('batch-append', 'bapp %d %s %d %s' % (seq, ops, seq2, ops2), oracle=app_oracle))
        # truncation of the body: every cut strictly inside must be rejected (count check / short slice)
        if cnt > 0:
            # total length unknown here without encoding; compute it
            total = 12
            for s in ops.split(','):
                pf = s.split(':')
                if pf[0] == 'p':
                    kl, vl = len(proto.parse_bytes(pf[1])), len(proto.parse_bytes(pf[2]))
                    total += 1 + len(py_varint(kl)) + kl + len(py_varint(vl)) + vl
                else:
                    kl = len(proto.parse_bytes(pf[1]))
                    total += 1 + len(py_varint(kl)) + kl
            for _ in range(4):
                cut = rng.choice([12, total - 1, rng.range(12, total - 1), rng.range(12, min(total - 1, 40))])

                def tr_oracle(resp, cut=cut, total=total):
                    return None if resp.startswith('corrupt') else 'batch of %d bytes cut to %d bytes was accepted: %s' % (total, cut, resp[:120])
                cases.append(Case('batch-truncate', 'bmut %d %s t:%d' % (seq, ops, cut), oracle=tr_oracle))
            cases.append(Case('batch-mutate', 'bmut %d %s s:%d:%d' % (seq, ops, rng.range(8, min(total - 1, 60)), rng.choice([0, 1, 2, 0x7f, 0x80, 0xff, rng.below(256)]))))
    for _ in range(n):
        b = rng.bytes(rng.choice([0, 5, 11, 12, 13, rng.below(40)]))
        if len(b) > 12 and rng.chance(1, 2):
            b = b[:8] + bytes([rng.below(4), 0, 0, 0]) + bytes([rng.below(3)]) + b[13:]
        cases.append(Case('batch-iter-arbitrary', 'biter %s' % proto.arg(b)))
    return cases


def ikey(u, seq, ty):
    return u + ((seq << 8) | ty).to_bytes(8, 'little')


def ik_sortkey(k):
    return (k[:-8], -int.from_bytes(k[-8:], 'little'))


def gen_ikey(rng, n):
    cases = []
    for _ in range(n):
        a, b = rand_key(rng, 10), rand_key(rng, 10)
        if rng.chance(1, 3) and a:
            b = a[:rng.below(len(a) + 1)] + rng.bytes(rng.below(3))
        if rng.chance(1, 5):
            b = a + b
        for c in ('bw', 'rev', 'len'):
            cases.append(Case('ucmp', 'ucmp %s %s %s' % (c, proto.arg(a), proto.arg(b))))
        lo, hi = (a, b) if a < b else (b, a)
        if lo < hi:
            def sep_oracle(resp, lo=lo, hi=hi):
                if resp.startswith('#') or resp == 'bad-op':
                    return None
                s = proto.parse_bytes(resp)
                return None if lo <= s < hi else 'shortest_separator(%s, %s) = %s violates start <= sep < limit' % (lo.hex(), hi.hex(), resp)
            cases.append(Case('separator', 'usep %s %s' % (proto.arg(lo), proto.arg(hi)), oracle=sep_oracle))
        cases.append(Case('separator', 'usep %s %s' % (proto.arg(hi), proto.arg(lo))))

        def succ_oracle(resp, a=a):
            s = proto.parse_bytes(resp)
            return None if a <= s else 'short_successor(%s) = %s is smaller than its argument' % (a.hex(), resp)
        cases.append(Case('successor', 'usucc %s' % proto.arg(a), oracle=succ_oracle))
        s1, s2 = rand_u(rng, 56), rand_u(rng, 56)
        if rng.chance(1, 3):
            s2 = s1
        t1, t2 = rng.below(2), rng.below(2)
        ka, kb = ikey(a, s1, t1), ikey(b, s2, t2)
        cases.append(Case('ikey-enc', 'ikenc %s %d %d' % (proto.arg(a), s1, t1), oracle=lambda r, ka=ka: None if r == proto.show_bytes(ka) else 'internal key bytes differ from the standard layout: %s' % r))
        cases.append(Case('pkey', 'pkey %s' % proto.arg(ka)))
        cases.append(Case('pkey', 'pkey %s' % proto.arg(rng.bytes(rng.below(12)))))
        for c in ('bw', 'rev', 'len'):
            cases.append(Case('icmp', 'icmp %s %s %s' % (c, proto.arg(ka), proto.arg(kb))))
        x, y = (ka, kb) if ik_sortkey(ka) < ik_sortkey(kb) else (kb, ka)
        if ik_sortkey(x) < ik_sortkey(y):
            def isep_oracle(resp, x=x, y=y):
                if resp.startswith('#'):
                    return None
                s = proto.parse_bytes(resp)
                if len(s) < 8:
                    return 'internal separator shorter than 8 bytes: %s' % resp
                return None if ik_sortkey(x) <= ik_sortkey(s) < ik_sortkey(y) else 'internal-key separator(%s, %s) = %s violates start <= sep < limit' % (x.hex(), y.hex(), resp)
            cases.append(Case('ikey-separator', 'isep bw %s %s' % (proto.arg(x), proto.arg(y)), oracle=isep_oracle))
        cases.append(Case('ikey-separator', 'isep %s %s %s' % (rng.choice(['rev', 'len']), proto.arg(ka), proto.arg(kb))))

        def isucc_oracle(resp, ka=ka):
            if resp.startswith('#'):
                return None
            s = proto.parse_bytes(resp)
            return None if len(s) >= 8 and ik_sortkey(ka) <= ik_sortkey(s) else 'internal-key successor(%s) = %s is smaller than its argument' % (ka.hex(), resp)
        cases.append(Case('ikey-successor', 'isucc bw %s' % proto.arg(ka), oracle=isucc_oracle))
    return cases


def separators_exhaustive(alphabet, maxlen):
    """all pairs of strings over a small alphabet up to maxlen: the 'exhaustive on short strings' part of C16"""
    strs = [b'']
    frontier = [b'']
    for _ in range(maxlen):
        frontier = [s + bytes([c]) for s in frontier for c in alphabet]
        strs += frontier
    cases = []
    for a in strs:
        def succ_oracle(resp, a=a):
            s = proto.parse_bytes(resp)
            return None if a <= s else 'short_successor(%s) = %s is smaller than its argument' % (a.hex(), resp)
        cases.append(Case('successor-exhaustive', 'usucc %s' % proto.arg(a), oracle=succ_oracle))
        for b in strs:
            if a < b:
                def sep_oracle(resp, lo=a, hi=b):
                    s = proto.parse_bytes(resp)
                    return None if lo <= s < hi else 'shortest_separator(%s, %s) = %s violates start <= sep < limit' % (lo.hex(), hi.hex(), resp)
                cases.append(Case('separator-exhaustive', 'usep %s %s' % (proto.arg(a), proto.arg(b)), oracle=sep_oracle))
    return cases


def gen_edit(rng, n, many=False):
    cases = []
    for _ in range(n):
        fields = []
        canon = []
        if rng.chance(1, 3):
            name = rng.choice([b'leveldb.BytewiseComparator', b'x', b'verif.ReverseBytewise', bytes([rng.range(33, 126) for _ in range(rng.below(40))])])
            if name:
                fields.append('c:%s' % name.hex()); canon.append('c:%s' % proto.show_bytes(name))
        for tag in ('l', 'p', 'n', 's'):
            if rng.chance(1, 2):
                v = rand_u(rng, 64)
                fields.append('%s:%d' % (tag, v)); canon.append('%s:%d' % (tag, v))
        cps, dfs, nfs = [], [], []
        for _ in range(rng.choice([0, 0, 1, 2, 7])):
            l = rng.below(7); k = ikey(rand_key(rng), rand_u(rng, 56), rng.below(2))
            cps.append((l, k))
        nd = rng.choice([0, 0, 1, 3, 10, 300 if many else 20])
        for _ in range(nd):
            dfs.append((rng.below(7), rng.choice([rand_u(rng, 64), rng.below(20)])))
        nn = rng.choice([0, 1, 2, 5, 2000 if many else 12])
        for _ in range(nn):
            nfs.append((rng.below(7), rand_u(rng, 64), rand_u(rng, 64), ikey(rand_key(rng), rand_u(rng, 56), rng.below(2)), ikey(rand_key(rng), rand_u(rng, 56), rng.below(2))))
        # interleave list-field order on input (the C API keeps per-kind insertion order)
        items = [('cp', x) for x in cps] + [('df', x) for x in dfs] + [('nf', x) for x in nfs]
        for i in range(len(items) - 1, 0, -1):
            j = rng.below(i + 1)
            items[i], items[j] = items[j], items[i]
        cps2 = [x for t, x in items if t == 'cp']
        nfs2 = [x for t, x in items if t == 'nf']
        for t, x in items:
            if t == 'cp':
                fields.append('cp:%d:%s' % (x[0], proto.arg(x[1])))
            elif t == 'df':
                fields.append('df:%d:%d' % x)
            else:
                fields.append('nf:%d:%d:%d:%s:%s' % (x[0], x[1], x[2], proto.arg(x[3]), proto.arg(x[4])))
        canon += ['cp:%d:%s' % (l, proto.show_bytes(k)) for l, k in cps2]
        canon += ['df:%d:%d' % x for x in sorted(set(dfs))]
        canon += ['nf:%d:%d:%d:%s:%s' % (x[0], x[1], x[2], proto.show_bytes(x[3]), proto.show_bytes(x[4])) for x in nfs2]
        exp = ';'.join(canon) if canon else '.'

        def rt_oracle(resp, exp=exp):
            parts = resp.split(' ', 1)
            got = parts[1] if len(parts) > 1 else ''
            return None if got == exp else 'version edit changed by encode->decode: expected %s got %s' % (exp[:200], got[:200])
        cases.append(Case('edit-roundtrip', 'eenc %s' % (';'.join(fields) if fields else '.'), oracle=rt_oracle))
    return cases


def gen_edit_arbitrary(rng, n):
    cases = []
    for _ in range(n):
        k = rng.below(5)
        if k == 0:
            b = rng.bytes(rng.below(30))
        else:
            # plausible tagged stream with boundary values
            b = bytearray()
            for _ in range(rng.range(1, 5)):
                tag = rng.choice([1, 2, 3, 4, 5, 6, 7, 9, 0, 8, 10, 200])
                b += py_varint(tag)
                if tag in (2, 3, 4, 9):
                    b += py_varint(rand_u(rng, 64)) if rng.chance(4, 5) else bytes([0xff] * rng.below(11))
                elif tag == 1:
                    s = rng.bytes(rng.below(6)); b += py_varint(len(s) + rng.choice([0, 0, 0, 1, 200])) + s
                elif tag == 5:
                    s = rng.bytes(rng.choice([7, 8, 9, 12])); b += py_varint(rng.choice([0, 6, 7, 8])) + py_varint(len(s)) + s
                elif tag == 6:
                    b += py_varint(rng.choice([0, 6, 7, 1 << 31])) + py_varint(rand_u(rng, 64))
                elif tag == 7:
                    s1 = rng.bytes(rng.choice([7, 8, 10])); s2 = rng.bytes(rng.choice([7, 8, 10]))
                    b += py_varint(rng.choice([0, 3, 6, 7])) + py_varint(rand_u(rng, 64)) + py_varint(rand_u(rng, 64)) + py_varint(len(s1)) + s1 + py_varint(len(s2)) + s2
            b = bytes(b)
            if rng.chance(1, 4) and b:
                b = b[:rng.below(len(b))]
        cases.append(Case('edit-decode-arbitrary', 'edec %s' % proto.arg(b)))
    return cases


FNAME_RE = re.compile(r'^(?:(CURRENT)|(LOCK)|(LOG|LOG\.old)|MANIFEST-([0-9]+)|([0-9]+)\.(log|sst|ldb|dbtmp))$')


def fname_expected(name):
    m = FNAME_RE.match(name)
    if not m or '\n' in name:
        return 'none'
    if m.group(1):
        return 'current 0'
    if m.group(2):
        return 'lock 0'
    if m.group(3):
        return 'info 0'
    if m.group(4):
        v = int(m.group(4))
        return 'desc %d' % v if v < (1 << 64) else 'none'
    v = int(m.group(5))
    if v >= (1 << 64):
        return 'none'
    return '%s %d' % ({'log': 'log', 'sst': 'table', 'ldb': 'table', 'dbtmp': 'temp'}[m.group(6)], v)


def fname_case(name):
    def orc(resp, name=name):
        exp = fname_expected(name)
        return None if resp == exp else 'file name %r parsed as %s, the owned-name grammar says %s' % (name, resp, exp)
    return Case('filename', 'fname %s' % proto.arg(name.encode()), oracle=orc)


def gen_fname(rng, n, exhaustive_len=0):
    cases = []
    fixed = ['CURRENT', 'LOCK', 'LOG', 'LOG.old', 'MANIFEST-000001', 'MANIFEST-', 'MANIFEST-1x', '000003.log', '000003.ldb', '000003.sst', '000003.dbtmp',
             '18446744073709551615.log', '18446744073709551616.log', '18446744073709551615.ldb', 'MANIFEST-18446744073709551616', '0.log', '.log', 'foo', 'CURRENT.bak',
             'LOCK2', '1.logx', '1.lo', '00000000000000000000000001.ldb', 'LOG.old.1', 'current', '1.LOG', ' 1.log', '1.log ', '-1.log', '+1.log', '1..log', '0x10.log', '']
    for nm in fixed:
        cases.append(fname_case(nm))
    alphabet = ['0', '1', '9', '.', 'l', 'o', 'g', 'd', 'b', 's', 't', 'M', '-', 'x']
    if exhaustive_len:
        frontier = ['']
        for _ in range(exhaustive_len):
            frontier = [s + c for s in frontier for c in alphabet]
            for s in frontier:
                cases.append(fname_case(s))
    pieces = ['CURRENT', 'LOCK', 'LOG', '.old', 'MANIFEST-', '.log', '.ldb', '.sst', '.dbtmp', '0', '1', '42', '000007', '18446744073709551615', '18446744073709551616', 'x', '.', '-', 'tmp']
    for _ in range(n):
        nm = ''.join(rng.choice(pieces) for _ in range(rng.range(1, 3)))
        cases.append(fname_case(nm))
    return cases
