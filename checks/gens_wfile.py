"""Request generators with direct property oracles for the buffered writable file
(util/env_unix_impl.h ldb_write / ldb_wfile_append0 / flush / sync0 / close / ldb_sync_dir, util/env.c ldb_write_file,
filename.c ldb_set_current_file, log_writer.c ldb_writer_add_record driving the file).

Requests (lean/Driver/WFile.lean is the protocol definition)
  wfile     <m|l> <oracle> <ops>          ops a:<bytes> f s r:<bytes> c(last only)   -> rc=ev,ev;rc=ev... <contents>
  wfilefile <name> <sync 0/1> <oracle> <bytes>                                       -> rc=evs <listing> <contents|none>
  wcurrent  <number> <pre 0/1> <oracle>                                              -> rc=evs <listing> <CURRENT|none>
  oracle: - or <kind><answer>[*count],...  kind w s o c r u; K ok, <k>/H/M<j> short writes, I E B N V errno

Every oracle is computed here in Python from the request (the appended byte stream, an independent log-format
layout with its own crc32c, the name / contents of the pointer file) and from the system-call events the
implementation reports; none of them looks at the Lean model's answer."""
from common import Case

CAP = 65536            # LDB_WRITE_BUFFER
BLOCK = 32768          # LDB_BLOCK_SIZE
HDR = 7                # LDB_HEADER_SIZE
ERRNAME = {'I': 'eintr', 'E': 'eio', 'B': 'ebadf', 'N': 'enospc', 'V': 'einval'}
ERRS = ('eintr', 'eio', 'ebadf', 'enospc', 'einval')
MAX_TOTAL = 400000     # appended bytes per request
MAX_WCALLS = 300       # scripted write answers per request


# ------------------------------------------------------------------ bytes: argument syntax, rendering (harness/common.h)
_pat_cache = {}


def pat_bytes(seed, n):
    """pat_byte(seed, i) for i < n: ((seed*1103515245 + 12345 + i*2654435761) mod 2^32) / 65536 mod 256"""
    have = _pat_cache.get(seed, b'')
    if len(have) < n:
        m = max(n, 2 * len(have), 4096)
        c = seed * 1103515245 + 12345
        have = bytes([((c + i * 2654435761) >> 16) & 255 for i in range(m)])   # bits 16..23: the mod 2^32 is immaterial
        _pat_cache[seed] = have
    return have[:n]


def pbytes1(s):
    if s == '-':
        return b''
    if s[0] == '@':
        a, b = s[1:].split('~')
        return pat_bytes(int(a), int(b))
    if s[0] == '=':
        a, b = s[1:].split('~')
        return bytes([int(a, 16)]) * int(b)
    if s[0] == '%':
        a, b, c = (int(x) for x in s[1:].split('~'))
        per = pat_bytes(a, c)
        return (per * (b // c + 1))[:b]
    return bytes.fromhex(s)


def pbytes(s):
    return b''.join(pbytes1(p) for p in s.split('+'))


def fnv64(b):
    h = 14695981039346656037
    for x in b:
        h = ((h ^ x) * 1099511628211) & 0xFFFFFFFFFFFFFFFF
    return h


def show_bytes(b):
    if len(b) <= 40:
        return b.hex() if b else '-'
    return '#%d:%016x' % (len(b), fnv64(b))


def shown_len(s):
    """length of the byte string a rendering stands for (None: not a rendering)"""
    if s == '-':
        return 0
    if s.startswith('#'):
        try:
            return int(s[1:].split(':')[0])
        except ValueError:
            return None
    if len(s) % 2 or len(s) > 80:
        return None
    try:
        bytes.fromhex(s)
    except ValueError:
        return None
    return len(s) // 2


# ------------------------------------------------------------------ independent log-format layout (log_format.h, log_writer.c)
_CRC_T = []
for _i in range(256):
    _c = _i
    for _ in range(8):
        _c = (_c >> 1) ^ 0x82F63B78 if _c & 1 else _c >> 1
    _CRC_T.append(_c)


def crc32c(data, crc=0):
    crc ^= 0xFFFFFFFF
    t = _CRC_T
    for b in data:
        crc = t[(crc ^ b) & 0xFF] ^ (crc >> 8)
    return crc ^ 0xFFFFFFFF


def log_layout(off, rec):
    """bytes the log writer emits for one record when the current block already holds `off` bytes -> (bytes, new off).
    7-byte header (masked crc32c of type+payload, length LE16, type), fragments cut at 32768-byte blocks,
    a block tail shorter than a header zero-filled; an empty record is one zero-length FULL fragment"""
    out = bytearray()
    left = rec
    begin = True
    while True:
        leftover = BLOCK - off
        if leftover < HDR:
            out += b'\0' * leftover
            off = 0
        avail = BLOCK - off - HDR
        frag = left[:avail]
        left = left[len(frag):]
        end = not left
        typ = 1 if (begin and end) else 2 if begin else 4 if end else 3
        crc = crc32c(bytes([typ]) + frag)
        crc = (((crc >> 15) | (crc << 17)) + 0xA282EAD8) & 0xFFFFFFFF
        out += crc.to_bytes(4, 'little') + len(frag).to_bytes(2, 'little') + bytes([typ]) + frag
        off += HDR + len(frag)
        begin = False
        if end:
            return bytes(out), off


# ------------------------------------------------------------------ ops
class Ops:
    """an op script: list of (tag, spec) with tag in a f s c r; the appended stream is computed lazily"""
    def __init__(self, kind, ops):
        self.kind = kind
        self.ops = ops
        self._chunks = None

    def arg(self):
        return ','.join(t if t in 'fsc' else '%s:%s' % (t, spec) for t, spec in self.ops) if self.ops else '.'

    def chunks(self):
        """per op, the bytes it hands to the file (for r: the log layout)"""
        if self._chunks is None:
            off = 0
            res = []
            for t, spec in self.ops:
                if t == 'a':
                    res.append(pbytes(spec))
                elif t == 'r':
                    b, off = log_layout(off, pbytes(spec))
                    res.append(b)
                else:
                    res.append(b'')
            self._chunks = res
        return self._chunks

    def total(self):
        return sum(len(c) for c in self.chunks())

    def calls(self):
        """system calls of a run in which nothing fails and every write is complete (used to place faults only):
        dict s/o/c -> list of 'f' (file) / 'd' (directory) in call order; w -> list of request sizes"""
        pos = 0
        off = 0
        n = {'w': [], 's': [], 'o': [], 'c': []}

        def flush():
            nonlocal pos
            if pos > 0:
                n['w'].append(pos)
            pos = 0

        def append(k):
            nonlocal pos
            cp = min(k, CAP - pos)
            pos += cp
            rest = k - cp
            if rest == 0:
                return
            flush()
            if rest < CAP:
                pos = rest
            else:
                n['w'].append(rest)

        for t, spec in self.ops:
            if t == 'a':
                append(len(pbytes(spec)))
            elif t == 'f':
                flush()
            elif t == 's':
                if self.kind == 'm':
                    n['o'].append('d'); n['s'].append('d'); n['c'].append('d')
                flush()
                n['s'].append('f')
            elif t == 'c':
                flush()
                n['c'].append('f')
            elif t == 'r':
                left = len(pbytes(spec))
                while True:
                    leftover = BLOCK - off
                    if leftover < HDR:
                        append(leftover)
                        off = 0
                    fl = min(left, BLOCK - off - HDR)
                    append(HDR); append(fl); flush()
                    off += HDR + fl
                    left -= fl
                    if left == 0:
                        break
        return n


# ------------------------------------------------------------------ response parsing, generic event rules
def parse_opres(s):
    """'rc=ev,ev' -> (rc, [ev...]) or None"""
    if '=' not in s:
        return None
    rc, evs = s.split('=', 1)
    if rc != 'ok' and rc not in ERRS:
        return None
    return rc, (evs.split(',') if evs else [])


def ev_err(ev):
    """errno name carried by an event, or None"""
    if '!' in ev:
        return ev.rsplit('!', 1)[1]
    return None


def ev_kind(ev):
    """w s sd od cd c o ren unl"""
    head = ev.split('!')[0]
    if head.startswith('w:'):
        return 'w'
    if head.startswith('o:'):
        return 'o'
    if head.startswith('ren:'):
        return 'ren'
    if head.startswith('unl:'):
        return 'unl'
    return head


def parse_w(ev):
    """'w:req:k' -> (req, k, None) ; 'w:req:!e' -> (req, 0, e)"""
    p = ev.split(':')
    if len(p) != 3:
        raise ValueError(ev)
    if p[2].startswith('!'):
        return int(p[1]), 0, p[2][1:]
    return int(p[1]), int(p[2]), None


def first_fault(evs):
    """errno of the first system-call failure that the code under test may not swallow, with its index:
    write / fsync failing with anything but EINTR (those loops retry); a directory fsync failing with anything but
    EINTR, EBADF, EINVAL; an open attempt failing with anything but EINTR (retried) or a first EINVAL (tried once more
    without O_CLOEXEC); the close of the file when nothing failed before it (the close done by ldb_wfile_destroy after
    a failure, the close of the directory and unlink have their results ignored by the C code); a failed rename.
    Everything after a successful rename (the directory sync of ldb_set_current_file) is best effort."""
    second = False          # the previous event was an open failing with EINVAL at its first attempt
    for i, ev in enumerate(evs):
        k = ev_kind(ev)
        e = ev_err(ev)
        if k == 'ren':
            return (e, i) if e else (None, None)
        if k in ('o', 'od'):
            if e is None or e == 'eintr':
                second = False
            elif e == 'einval' and not second:
                second = True
            else:
                return e, i
            continue
        second = False
        if e is None:
            continue
        if k == 'c':
            return e, i
        if e == 'eintr':
            continue
        if k in ('w', 's'):
            return e, i
        if k == 'sd' and e not in ('ebadf', 'einval'):
            return e, i
    return None, None


def check_events(rc, evs):
    """the rules every operation obeys: status == first unswallowed failure; after it only clean-up calls;
    write events well formed, each burst of writes walks its request down by what was transferred"""
    try:
        for ev in evs:
            if ev_kind(ev) == 'w':
                req, k, e = parse_w(ev)
                if req <= 0 or k < 0 or k > req:
                    return 'write event out of range: %s' % ev
            elif ev_kind(ev) not in ('s', 'sd', 'od', 'cd', 'c', 'o', 'ren', 'unl'):
                return 'unknown event %s' % ev
            e = ev_err(ev)
            if e is not None and e not in ERRS:
                return 'unknown errno in %s' % ev
    except ValueError:
        return 'malformed write event in %s' % ','.join(evs)[:200]
    e, i = first_fault(evs)
    if (e or 'ok') != rc:
        return 'status %s but the first failing system call says %s (events %s)' % (rc, e or 'ok', ','.join(evs)[:300])
    if e is not None:
        for ev in evs[i + 1:]:
            if ev_kind(ev) not in ('c', 'cd', 'unl'):
                return 'system call %s issued after the failure %s' % (ev, evs[i])
    # bursts: within one ldb_write loop the next request is the previous one minus what was transferred
    rem = 0
    for ev in evs:
        if ev_kind(ev) != 'w':
            if rem != 0 and ev_kind(ev) in ('s', 'c', 'ren') and e is None:
                return 'a write loop was abandoned with %d bytes left before %s' % (rem, ev)
            continue
        req, k, er = parse_w(ev)
        if rem != 0 and req != rem:
            return 'write loop: %d bytes were left but the next write asks for %d' % (rem, req)
        rem = req - k if er is None or er == 'eintr' else 0
    return None


def transferred(evs):
    return sum(parse_w(ev)[1] for ev in evs if ev_kind(ev) == 'w')


def bursts(evs):
    """number of ldb_write loops (with at least one write call) among the events"""
    n = 0
    rem = 0
    for ev in evs:
        if ev_kind(ev) != 'w':
            continue
        req, k, er = parse_w(ev)
        if rem == 0:
            n += 1
        rem = req - k if er is None or er == 'eintr' else 0
    return n


def parse_wfile(resp, nops):
    """-> (list of (rc, evs), contents rendering) or an error string"""
    if resp is None:
        return 'no response'
    f = resp.split(' ')
    if len(f) != 2:
        return 'response is not "<ops> <contents>": %s' % resp[:200]
    if f[0] == '.':
        rs = []
    else:
        rs = [parse_opres(x) for x in f[0].split(';')]
    if any(r is None for r in rs):
        return 'unparsable op result in %s' % resp[:200]
    if len(rs) != nops:
        return '%d op results for %d ops' % (len(rs), nops)
    if shown_len(f[1]) is None:
        return 'unparsable contents %s' % f[1][:100]
    return rs, f[1]


def op_shape(tag, manifest, rc, evs):
    """which events an op of a wfile script may emit, in which order (successful op)"""
    ks = [ev_kind(e) for e in evs]
    if rc != 'ok':
        return None
    if tag in ('a', 'f', 'r'):
        if any(k != 'w' for k in ks):
            return '%s op emits something else than writes: %s' % (tag, ','.join(evs)[:200])
        return None
    if tag == 's':
        i = 0
        if manifest:
            while i < len(ks) and ks[i] == 'od':
                i += 1
            if i == 0:
                return 'sync of a MANIFEST file does not open the directory first: %s' % ','.join(evs)[:200]
            j = i
            while i < len(ks) and ks[i] == 'sd':
                i += 1
            if i == j or i >= len(ks) or ks[i] != 'cd':
                return 'sync of a MANIFEST file: directory not fsynced and closed after the open: %s' % ','.join(evs)[:200]
            i += 1
        while i < len(ks) and ks[i] == 'w':
            i += 1
        j = i
        while i < len(ks) and ks[i] == 's':
            i += 1
        if i == j:
            return 'sync reports ok without an fsync of the file: %s' % ','.join(evs)[:200]
        if i != len(ks):
            return 'sync: unexpected event %s after the fsync (%s)' % (evs[i], ','.join(evs)[:200])
        if ev_err(evs[-1]) is not None or sum(1 for e in evs if e == 's') != 1:
            return 'sync: not exactly one successful fsync, last: %s' % ','.join(evs)[:200]
        return None
    if tag == 'c':
        if not ks or ks[-1] != 'c' or any(k != 'w' for k in ks[:-1]):
            return 'close: events are not writes followed by one close: %s' % ','.join(evs)[:200]
    return None


def prefix_check(stream, flen, shown):
    if flen > len(stream):
        return 'file holds %d bytes, only %d were appended' % (flen, len(stream))
    want = show_bytes(stream[:flen])
    if want != shown:
        return 'file contents %s are not the first %d appended bytes (%s)' % (shown, flen, want)
    return None


# ------------------------------------------------------------------ oracles: wfile
def oracle_nofault(ops):
    """no failing answer scripted: every op ok, nothing lost, nothing reordered, sync = [dir] flush fsync"""
    def orc(resp):
        p = parse_wfile(resp, len(ops.ops))
        if isinstance(p, str):
            return p
        rs, shown = p
        chunks = ops.chunks()
        cum_app = 0
        cum_tr = 0
        for (tag, _), (rc, evs), ch in zip(ops.ops, rs, chunks):
            if rc != 'ok':
                return 'op %s returns %s though the environment never fails' % (tag, rc)
            why = check_events(rc, evs) or op_shape(tag, ops.kind == 'm', rc, evs)
            if why:
                return why
            for ev in evs:
                if ev_err(ev) not in (None, 'eintr') and not (ev_kind(ev) in ('sd',) and ev_err(ev) in ('ebadf', 'einval')) \
                        and not (ev_kind(ev) in ('o', 'od') and ev_err(ev) == 'einval'):
                    return 'unscripted failure %s' % ev
            cum_app += len(ch)
            cum_tr += transferred(evs)
            if cum_tr > cum_app:
                return 'more bytes written (%d) than appended (%d) after op %s' % (cum_tr, cum_app, tag)
            if cum_app - cum_tr > CAP:
                return '%d bytes buffered: more than the write buffer' % (cum_app - cum_tr)
            if tag in ('f', 's', 'c', 'r') and cum_tr != cum_app:
                return 'after a successful %s only %d of the %d appended bytes were handed to the OS' % (tag, cum_tr, cum_app)
        flen = shown_len(shown)
        if flen != cum_tr:
            return 'file length %d differs from the sum of transferred counts %d' % (flen, cum_tr)
        return prefix_check(b''.join(chunks), flen, shown)
    return orc


def oracle_fault(ops, expect):
    """expect: errno name the first failing op must return / 'ok' (the fault is never reached or is one the code
    is specified to ignore) / None (no expectation)"""
    def orc(resp):
        p = parse_wfile(resp, len(ops.ops))
        if isinstance(p, str):
            return p
        rs, shown = p
        tr = 0
        first_bad = None
        for (tag, _), (rc, evs) in zip(ops.ops, rs):
            why = check_events(rc, evs) or op_shape(tag, ops.kind == 'm', rc, evs)
            if why:
                return why
            tr += transferred(evs)
            if rc != 'ok' and first_bad is None:
                first_bad = rc
        if expect is not None and (first_bad or 'ok') != expect:
            return 'the injected failure must surface as %s; first non-ok status: %s' % (expect, first_bad or 'none')
        flen = shown_len(shown)
        if flen != tr:
            return 'file length %d differs from the sum of transferred counts %d' % (flen, tr)
        stream = b''.join(ops.chunks())
        why = prefix_check(stream, flen, shown)
        if why and first_bad is None:
            return 'data lost or damaged without any error status: ' + why
        if first_bad is None and ops.ops and ops.ops[-1][0] in 'fscr' and flen != len(stream):
            return 'all ops ok, last op %s, yet only %d of %d bytes are in the file' % (ops.ops[-1][0], flen, len(stream))
        return None
    return orc


# ------------------------------------------------------------------ generation helpers
SIZES = [0, 0, 1, 1, 5, 6, 7, 7, 100, 100, 1000, 4096] + list(range(32761, 32776)) + \
        [65529, 65530, 65535, 65535, 65536, 65536, 65537, 65537, 131072, 131073, 70000, 40000]
SMALL = [0, 1, 2, 5, 6, 7, 16, 41, 100, 255]


def data_spec(rng, n):
    """an argument denoting n bytes"""
    k = rng.below(40)
    if n == 0:
        return '-'
    if n <= 20 and k < 30:
        return rng.bytes(n).hex()
    if k < 5:
        return '=%02x~%d' % (rng.below(256), n)
    if k < 7 and n >= 2:
        a = rng.range(1, n - 1)
        return '@%d~%d+=%02x~%d' % (rng.range(1, 6), a, rng.below(256), n - a)
    if k < 9:
        return '%%%d~%d~%d' % (rng.range(1, 6), n, rng.choice([1, 3, 7, 255, 4096]))
    return '@%d~%d' % (rng.range(1, 6), n)


def w_items_nofault(rng, budget=MAX_WCALLS):
    """write answers that never fail: short-write schedules, zero progress, EINTR bursts, explicit counts"""
    items = []
    used = 0
    for _ in range(rng.choice([0, 1, 1, 2, 2, 3, 4, 6])):
        k = rng.below(12)
        cnt = rng.choice([1, 1, 2, 3, 5, 17, 40, 100, 300])
        cnt = min(cnt, budget - used)
        if cnt <= 0:
            break
        if k < 2:
            a = '1'
        elif k < 4:
            a = 'H'
            cnt = min(cnt, 20)
        elif k < 6:
            a = 'M1'
            cnt = min(cnt, 40)
        elif k < 7:
            a = '0'
            cnt = min(cnt, 5)
        elif k < 9:
            a = 'I'
            cnt = min(cnt, 17)
        elif k < 10:
            a = str(rng.choice([2, 3, 7, 100, 4096, 32768, 65535, 65536, 65537, 70000, 1 << 31]))
            cnt = min(cnt, 5)
        elif k < 11:
            a = 'M%d' % rng.choice([0, 2, 7, 100, 65535, 65536, 70000])
            cnt = min(cnt, 5)
        else:
            a = 'K'
            cnt = min(cnt, 5)
        used += cnt
        items.append('w%s*%d' % (a, cnt) if cnt > 1 or rng.chance(1, 8) else 'w' + a)
    return items


def so_items_nofault(rng, manifest):
    items = []
    if rng.chance(1, 3):
        if manifest and rng.chance(1, 3):
            # EBADF / EINVAL of the directory fsync are ignored by ldb_sync_dir: first in the queue = the directory's
            if rng.chance(1, 2):
                items.append('sI*%d' % rng.range(1, 3))
            items.append('s' + rng.choice('BV'))
            if rng.chance(1, 2):
                items.append('sI')
        else:
            items.append(rng.choice(['sI', 'sI*2', 'sI*7', 'sK,sI', 'sK*2,sI*3', 'sI,sK,sI']))
    if rng.chance(1, 4):
        items.append(rng.choice(['oI', 'oI*3', 'oV', 'oV,oI', 'oI,oV', 'oK,oI', 'oV,oK,oV', 'oI*2,oV,oI']))
    if rng.chance(1, 10):
        items.append(rng.choice(['cK', 'cK*3', 'rK', 'uK']))
    return items


def shuffle(rng, xs):
    xs = list(xs)
    for i in range(len(xs) - 1, 0, -1):
        j = rng.below(i + 1)
        xs[i], xs[j] = xs[j], xs[i]
    return xs


def oracle_arg(items):
    return ','.join(items) if items else '-'


def gen_script(rng, kind=None, tags='afs', maxops=14):
    """an op script of at most MAX_TOTAL appended bytes"""
    kind = kind or rng.choice('ml')
    shape = rng.below(10)
    ops = []
    total = 0

    def add_a(n, tag='a'):
        nonlocal total
        if total + n > MAX_TOTAL or len(ops) >= 58:
            return
        total += n + (n // BLOCK + 2) * HDR if tag == 'r' else n
        ops.append((tag, data_spec(rng, n)))

    if shape < 5:
        for _ in range(rng.range(1, maxops)):
            t = rng.choice(tags + 'aa')
            if t in 'ar':
                add_a(rng.choice(SIZES) if rng.chance(3, 4) else rng.choice(SMALL), t)
            else:
                ops.append((t, None))
    elif shape < 7:
        # leave the buffer nearly / exactly full, then cross the boundary with a few bytes
        first = rng.choice([[65530], [65536], [65535], [32768, 32768], [65529], [65536, 65536], [32761, 32775], [1, 65535], [100, 65436], [131072]])
        for n in first:
            add_a(n)
            if rng.chance(1, 6):
                ops.append((rng.choice('fs'), None))
        for _ in range(rng.range(1, 5)):
            add_a(rng.choice([1, 1, 5, 6, 7, 0, 2, 65536, 65537]))
            if rng.chance(1, 5):
                ops.append((rng.choice('fs'), None))
    elif shape < 8:
        # many small appends
        for _ in range(rng.range(20, 56)):
            if rng.chance(1, 9):
                ops.append((rng.choice('fs'), None))
            else:
                add_a(rng.choice(SMALL + [1000, 4096, 9000]))
    elif shape < 9:
        # large appends: the direct-write branch
        for _ in range(rng.range(1, 4)):
            if rng.chance(1, 2):
                add_a(rng.choice([0, 1, 100, 65535, 65536, 40000]))
            add_a(rng.choice([65536, 65537, 131072, 131073, 131071, 140000, 200000, 65536 + 65535]))
            if rng.chance(1, 3):
                ops.append((rng.choice('fs'), None))
    else:
        # degenerate scripts
        ops = [[], [('f', None)], [('s', None)], [('c', None)], [('f', None), ('s', None), ('s', None)],
               [('a', '-')], [('a', '-'), ('s', None)], [('s', None), ('a', '01'), ('s', None), ('s', None)]][rng.below(8)]
        ops = list(ops)
    ops = ops[:59]
    if rng.chance(1, 2) and not (ops and ops[-1][0] == 'c'):
        ops.append(('c', None))
    elif rng.chance(1, 3) and len(ops) < 60 and not (ops and ops[-1][0] == 'c'):
        ops.append((rng.choice('fs'), None))
    return Ops(kind, ops)


def gen_nofault(rng, n):
    cases = []
    for _ in range(n):
        ops = gen_script(rng)
        items = shuffle(rng, w_items_nofault(rng) + so_items_nofault(rng, ops.kind == 'm'))
        # an oV answer directly followed by another oV would be a real failure of the open: keep the o answers as generated
        o_items = [x for x in items if x.startswith('o')]
        items = [x for x in items if not x.startswith('o')] + o_items
        req = 'wfile %s %s %s' % (ops.kind, oracle_arg(items), ops.arg())
        cases.append(Case('wf-nofault', req, oracle=oracle_nofault(ops), meta={'total': None}))
    return cases


REC_SIZES = [0, 1, 100, 100, 32761, 32768, 40000, 70000, 100000, 32754, 32755, 32760, 65521, 65522, 7, 1000]


def gen_record(rng, n):
    cases = []
    for i in range(n):
        kind = rng.choice('lllm')
        ops = []
        total = 0
        mixed = rng.chance(1, 8)
        for _ in range(rng.range(1, 9)):
            k = rng.below(12)
            if k < 8:
                sz = rng.choice(REC_SIZES)
                if total + sz > 330000:
                    continue
                total += sz
                ops.append(('r', data_spec(rng, sz)))
            elif k < 10:
                ops.append((rng.choice('fs'), None))
            elif mixed:
                sz = rng.choice([0, 1, 6, 100, 32761, 65530, 65536, 70000])
                if total + sz > 330000:
                    continue
                total += sz
                ops.append(('a', data_spec(rng, sz)))
        if not ops:
            ops = [('r', '-')]
        if rng.chance(1, 2):
            ops.append(('c', None))
        o = Ops(kind, ops)
        items = shuffle(rng, w_items_nofault(rng) + so_items_nofault(rng, kind == 'm'))
        items = [x for x in items if not x.startswith('o')] + [x for x in items if x.startswith('o')]
        req = 'wfile %s %s %s' % (kind, oracle_arg(items), o.arg())
        cases.append(Case('wf-record', req, oracle=oracle_nofault(o)))
    return cases


# ------------------------------------------------------------------ wf-fault
def fault_scripts():
    A = lambda s: ('a', s)
    R = lambda s: ('r', s)
    F, S, C = ('f', None), ('s', None), ('c', None)
    return [
        Ops('l', [A('@1~100'), F, A('@2~65537'), A('@3~10'), S, A('@4~131073'), F, A('@7~9'), C]),
        Ops('m', [A('@1~65530'), A('0102030405'), A('@2~7'), S, A('@3~70000'), S, C]),
        Ops('l', [A('@5~65536'), A('01'), F, A('@6~200000'), S, F, C]),
        Ops('m', [A('=aa~10'), S, A('=bb~10'), S, A('=cc~10'), C]),
        Ops('l', [R('@1~100'), R('@2~40000'), R('@3~70000'), S, R('-'), C]),
        Ops('l', [A('@1~40000'), A('@2~40000'), A('@3~40000'), A('@4~40000'), F, A('@5~40000'), S]),
        Ops('m', [R('@1~32755'), R('01'), R('@2~100000'), S, C]),
        Ops('m', [S, A('@1~65536'), A('@2~65536'), S, A('@3~1'), A('@4~65535'), A('@5~9'), C]),
        Ops('l', [A('@1~5'), A('@2~6'), A('@3~7')]),
        Ops('l', [A('@1~65536'), A('@2~65536'), A('@3~65536'), A('@4~3')]),
    ]


def single_faults(ops):
    """(oracle items, expected first non-ok status) for one failing answer at every call position of every kind"""
    calls = ops.calls()
    out = []
    W = len(calls['w'])

    def pre(k, j):
        return ['%sK*%d' % (k, j)] if j > 1 else ['%sK' % k] if j == 1 else []

    for j in range(W + 1):
        for letter in 'ENB':
            out.append((pre('w', j) + ['w' + letter], ERRNAME[letter] if j < W else 'ok'))
        # a short write, then the continuation of the same loop fails
        # (a request so small that the short answer completes it moves the failure to the next call)
        nxt = j if (j < W and calls['w'][j] > 3) else j + 1
        out.append((pre('w', j) + ['w3', 'wE'], 'eio' if nxt < W else 'ok'))
        nxt = j if (j < W and calls['w'][j] > 1) else j + 1
        out.append((pre('w', j) + ['wI*2', 'wH', 'wI', 'wN'], 'enospc' if nxt < W else 'ok'))
        out.append((pre('w', j) + ['w0', 'wV'], 'einval' if j < W else 'ok'))
    S = calls['s']
    for j in range(len(S) + 1):
        for letter in 'EBVN':
            if j < len(S):
                exp = 'ok' if (S[j] == 'd' and letter in 'BV') else ERRNAME[letter]
            else:
                exp = 'ok'
            out.append((pre('s', j) + ['s' + letter], exp))
        out.append((pre('s', j) + ['sI*3', 'sE'], 'eio' if j < len(S) else 'ok'))
    Cc = calls['c']
    for j in range(len(Cc) + 1):
        for letter in 'EB':
            exp = ERRNAME[letter] if (j < len(Cc) and Cc[j] == 'f') else 'ok'
            out.append((pre('c', j) + ['c' + letter], exp))
    O = calls['o']
    for j in range(len(O) + 1):
        for letter in 'ENB':
            out.append((pre('o', j) + ['o' + letter], ERRNAME[letter] if j < len(O) else 'ok'))
        out.append((pre('o', j) + ['oV'], 'ok'))
        out.append((pre('o', j) + ['oV', 'oE'], 'eio' if j < len(O) else 'ok'))
        out.append((pre('o', j) + ['oV', 'oV'], 'einval' if j < len(O) else 'ok'))
        out.append((pre('o', j) + ['oI', 'oV', 'oI', 'oN'], 'enospc' if j < len(O) else 'ok'))
    return out


def gen_fault(rng, n):
    systematic = []
    scripts = fault_scripts()
    for ops in scripts:
        for items, exp in single_faults(ops):
            systematic.append((ops, items, exp))
    if len(systematic) > n * 2 // 3:
        systematic = shuffle(rng, systematic)[:n * 2 // 3]
    cases = []
    for ops, items, exp in systematic:
        req = 'wfile %s %s %s' % (ops.kind, oracle_arg(items), ops.arg())
        cases.append(Case('wf-fault', req, oracle=oracle_fault(ops, exp), meta={'expect': exp}))
    # random scripts (no record / append mixtures: see the note in gen_wfile), random faults among benign answers
    while len(cases) < n:
        if rng.chance(1, 4):
            ops = rng.choice(scripts)
        elif rng.chance(1, 4):
            ops = gen_script(rng, tags='rfs', maxops=7)
            ops = Ops(ops.kind, [(('r' if t == 'a' else t), s) for t, s in ops.ops])
            ops._chunks = None
        else:
            ops = gen_script(rng, maxops=10)
        calls = ops.calls()
        items = w_items_nofault(rng, 40) + so_items_nofault(rng, False)
        nf = rng.choice([1, 1, 1, 2, 3])
        for _ in range(nf):
            k = rng.choice('wwwwssco')
            tot = len(calls[k])
            j = rng.below(tot + 2)
            letter = rng.choice('EENBV')
            items.append(('%sK*%d,' % (k, j) if j else '') + k + letter)
        items = shuffle(rng, items)
        items = [x for x in items if not x.startswith('o')] + [x for x in items if x.startswith('o')]
        req = 'wfile %s %s %s' % (ops.kind, oracle_arg(items), ops.arg())
        cases.append(Case('wf-fault', req, oracle=oracle_fault(ops, None), meta={'expect': None}))
    return cases[:n]


# ------------------------------------------------------------------ wfilefile
def fname_of(name):
    if name == 'C':
        return 'CURRENT'
    n = int(name[1:])
    return {'m': 'MANIFEST-%06d', 'l': '%06d.log', 't': '%06d.ldb', 'd': '%06d.dbtmp'}[name[0]] % n


def parse_file_resp(resp):
    if resp is None:
        return 'no response'
    f = resp.split(' ')
    if len(f) != 3:
        return 'response is not "<rc>=<events> <listing> <contents>": %s' % resp[:200]
    r = parse_opres(f[0])
    if r is None:
        return 'unparsable result %s' % f[0][:200]
    return r[0], r[1], f[1], f[2]


def oracle_file(name, sync, data, ufault, expect):
    fname = fname_of(name)

    def orc(resp):
        p = parse_file_resp(resp)
        if isinstance(p, str):
            return p
        rc, evs, listing, shown = p
        why = check_events(rc, evs)
        if why:
            return why
        if expect is not None and rc != expect:
            return 'expected status %s, got %s' % (expect, rc)
        ks = [ev_kind(e) for e in evs]
        opens = [e for e in evs if ev_kind(e) == 'o']
        if not evs or ks[0] != 'o' or any(not e.split('!')[0] == 'o:' + fname for e in opens):
            return 'the first system call is not the open of %s: %s' % (fname, ','.join(evs)[:200])
        opened = ev_err(opens[-1]) is None
        unl = [e for e in evs if ev_kind(e) == 'unl']
        if any(e.split('!')[0] != 'unl:' + fname for e in unl):
            return 'unlink of another file: %s' % ','.join(unl)
        if rc == 'ok':
            if listing != fname:
                return 'status ok but the directory holds %s' % listing
            if shown != show_bytes(data):
                return 'status ok but the file holds %s, not the data (%s)' % (shown, show_bytes(data))
            if evs[-1] != 'c':
                return 'the last system call of a successful write_file is not a successful close: %s' % evs[-1]
            if unl:
                return 'successful write_file removes the file'
            if transferred(evs) != len(data):
                return 'transferred %d bytes of %d' % (transferred(evs), len(data))
            if sync:
                if evs.count('s') != 1:
                    return 'sync requested: not exactly one successful fsync of the file (%s)' % ','.join(evs)[:200]
                si = evs.index('s')
                if any(k == 'w' for k in ks[si:]):
                    return 'a write follows the fsync'
                if si > len(evs) - 2:
                    return 'fsync does not precede the close'
            else:
                if any(k in ('s', 'sd', 'od') for k in ks):
                    return 'no sync requested but an fsync was issued'
            if name[0] == 'm' and sync and 'sd' not in ks:
                return 'MANIFEST file synced without a directory fsync'
            if name[0] != 'm' and any(k in ('od', 'sd', 'cd') for k in ks):
                return 'directory synced for a non-MANIFEST file'
        else:
            if opened:
                if not unl:
                    return 'failed write_file leaves the file behind: no unlink (%s)' % ','.join(evs)[:200]
                if ks[-1] != 'unl':
                    return 'the unlink is not the last system call'
                if 'c' not in ks:
                    return 'the descriptor is never closed on the failure path'
                if any(ev_err(e) is None for e in unl) or not ufault:
                    if listing != '-' or shown != 'none':
                        return 'failed write_file, unlink succeeded, yet the directory holds %s (%s)' % (listing, shown)
            else:
                if len(evs) != len(opens):
                    return 'system calls after a failed open: %s' % ','.join(evs)[:200]
                if listing != '-' or shown != 'none':
                    return 'open failed yet the directory holds %s' % listing
        # exactly one close of the file descriptor whenever it was opened
        if opened and ks.count('c') != 1:
            return 'the file descriptor is closed %d times' % ks.count('c')
        if listing not in ('-', fname):
            return 'strange listing %s' % listing
        if listing == fname and shown != 'none':
            return prefix_check_loose(data, shown, rc)
        return None
    return orc


def prefix_check_loose(data, shown, rc):
    n = shown_len(shown)
    if n is None:
        return 'unparsable contents %s' % shown
    if n > len(data) or show_bytes(data[:n]) != shown:
        return 'the file left behind is not a prefix of the data'
    return None


FILE_SIZES = [0, 1, 16, 65535, 65536, 65537, 140000, 131072, 131071, 41, 40]
FILE_NAMES = ['m1', 'm5', 'm999999', 'm1000000', 'l3', 'l7', 't12', 't1000000', 'd5', 'd42', 'C', 'm0', 'd0',
              'm999999999999999999', 'l18446744073709551', 't123456']


def file_calls(name, sync, size):
    """calls of a run without failures: lists of 'f'/'d' per kind"""
    w = [] if size == 0 else [size] if size <= CAP else [CAP, size - CAP]
    m = name[0] == 'm' and sync
    return {'o': ['f'] + (['d'] if m else []), 'w': w, 's': ((['d'] if m else []) + ['f']) if sync else [],
            'c': (['d'] if m else []) + ['f'], 'u': []}


def gen_file(rng, n):
    cases = []
    combos = []
    for name in FILE_NAMES:
        for size in FILE_SIZES:
            for sync in (0, 1):
                combos.append((name, size, sync))
    combos = shuffle(rng, combos)
    ci = 0
    while len(cases) < n:
        name, size, sync = combos[ci % len(combos)]
        ci += 1
        spec = data_spec(rng, size)
        data = pbytes(spec)
        calls = file_calls(name, sync, size)
        mode = rng.below(10)
        expect = None
        ufault = False
        if mode < 3:
            items = shuffle(rng, w_items_nofault(rng, 60) + so_items_nofault(rng, name[0] == 'm' and sync))
            items = [x for x in items if not x.startswith('o')] + [x for x in items if x.startswith('o')]
            # an o script meant for the directory open meets the file open first; all of them are benign
            expect = 'ok'
        elif mode < 8:
            # one fault at one call position
            k = rng.choice('owwsscu')
            tot = len(calls[k])
            j = rng.below(tot + 1)
            letter = rng.choice('EENB')
            items = ['%sK*%d' % (k, j)] if j else []
            items.append(k + letter)
            if k == 'u':
                expect = 'ok'
                ufault = True
            elif j >= tot:
                expect = 'ok'
            elif calls[k][j] == 'd':
                if k == 'c' or (k == 's' and letter in 'BV'):
                    expect = 'ok'
                else:
                    expect = ERRNAME[letter]
            else:
                expect = ERRNAME[letter]
            if k == 'w' and rng.chance(1, 3):
                short = rng.choice(['1', 'H', 'M1', '0', 'I'])
                items = (['wK*%d' % j] if j else []) + ['w' + short] + ['w' + letter]
                if j < tot and calls['w'][j] == 1 and short in '1H':
                    expect = None       # the short answer completes the request: the failure meets the next call, if any
            if rng.chance(1, 4):
                items.append('uE' if rng.chance(1, 2) else 'uK,uE')
                ufault = True
        else:
            # several faults / retries
            items = []
            for _ in range(rng.range(1, 4)):
                k = rng.choice('owscu')
                j = rng.below(len(calls[k]) + 2)
                items.append(('%sK*%d,' % (k, j) if j else '') + k + rng.choice('EBNVI'))
            if rng.chance(1, 3):
                items += w_items_nofault(rng, 30)
            items = shuffle(rng, items)
            ufault = any('u' == x[0] or ',u' in x for x in items)
        req = 'wfilefile %s %d %s %s' % (name, sync, oracle_arg(items), spec)
        cases.append(Case('wf-file', req, oracle=oracle_file(name, sync, data, ufault, expect), meta={'expect': expect}))
    return cases


# ------------------------------------------------------------------ wcurrent
CUR_NUMBERS = [0, 1, 5, 999999, 1000000, 1 << 32, (1 << 64) - 1, 42, 123456, (1 << 63)]
OLD = '6f6c640a'

CUR_ORACLES = [
    # (items, expected status or None)
    ([], 'ok'),
    (['oE'], 'eio'), (['oN'], 'enospc'), (['oB'], 'ebadf'), (['oI'], 'ok'), (['oI*3'], 'ok'), (['oV'], 'ok'), (['oV', 'oE'], 'eio'),
    (['oV', 'oV'], 'einval'), (['oV', 'oI', 'oK'], 'ok'), (['oI', 'oV', 'oI', 'oN'], 'enospc'),
    (['oK', 'oE'], 'ok'), (['oK', 'oV', 'oV'], 'ok'), (['oK', 'oI*2'], 'ok'), (['oK', 'oV'], 'ok'),
    (['wE'], 'eio'), (['wN'], 'enospc'), (['wB'], 'ebadf'), (['wV'], 'einval'), (['wI'], 'ok'), (['wI*5'], 'ok'),
    (['w3', 'wE'], 'eio'), (['w1*16'], 'ok'), (['w1*15', 'wN'], 'enospc'), (['w1*40', 'wN'], 'ok'), (['wH*5'], 'ok'), (['w0*3'], 'ok'),
    (['wM1', 'wI', 'wE'], 'eio'), (['wK', 'wE'], 'ok'), (['w0', 'wE'], 'eio'),
    (['sE'], 'eio'), (['sN'], 'enospc'), (['sB'], 'ebadf'), (['sV'], 'einval'), (['sI'], 'ok'), (['sI*4'], 'ok'), (['sI*2', 'sE'], 'eio'),
    (['sK', 'sE'], 'ok'), (['sK', 'sB'], 'ok'), (['sK', 'sV'], 'ok'), (['sK', 'sI', 'sN'], 'ok'), (['sK', 'sI*3'], 'ok'),
    (['cE'], 'eio'), (['cB'], 'ebadf'), (['cI'], 'eintr'), (['cK', 'cE'], 'ok'), (['cK*2', 'cE'], 'ok'),
    (['rE'], 'eio'), (['rN'], 'enospc'), (['rB'], 'ebadf'), (['rI'], 'eintr'), (['rK', 'rE'], 'ok'),
    (['uE'], 'ok'), (['uE*2'], 'ok'),
    # double faults
    (['sE', 'uE'], 'eio'), (['sE', 'uE*2'], 'eio'), (['sE', 'uK', 'uE'], 'eio'), (['wE', 'uE'], 'eio'), (['wN', 'uE*2'], 'enospc'),
    (['cE', 'uE'], 'eio'), (['cE', 'uE*2'], 'eio'), (['rE', 'uE'], 'eio'), (['rE', 'uN'], 'eio'), (['oE', 'uE'], 'eio'),
    (['wE', 'cE'], 'eio'), (['wN', 'cE', 'uB'], 'enospc'), (['sE', 'cE'], 'eio'), (['sB', 'cN', 'uE*2'], 'ebadf'),
    (['rE', 'sE'], 'eio'), (['rE', 'oK', 'oE'], 'eio'), (['oK', 'oE', 'sK', 'sE', 'cK', 'cE'], 'ok'), (['sK', 'sE', 'cK', 'cE'], 'ok'),
    (['oV', 'wH*3', 'sI', 'sK', 'sB'], 'ok'), (['oI', 'wI', 'sI', 'rE'], 'eio'), (['w1*16', 'sI*2', 'oK', 'oI', 'oV'], 'ok'),
    (['wE', 'sE', 'cE', 'rE', 'uE*2'], 'eio'), (['oV', 'oN', 'uE'], 'enospc'), (['oK', 'oV', 'oE'], 'ok'),
]


def ptr_contents(n):
    return ('MANIFEST-%06d\n' % n).encode()


def oracle_current(num, pre, ufault, expect):
    tmp = '%06d.dbtmp' % num
    new = ptr_contents(num)

    def orc(resp):
        p = parse_file_resp(resp)
        if isinstance(p, str):
            return p
        rc, evs, listing, shown = p
        why = check_events(rc, evs)
        if why:
            return why
        if expect is not None and rc != expect:
            return 'expected status %s, got %s' % (expect, rc)
        old = OLD if pre else 'none'
        if shown not in (old, new.hex()):
            return 'CURRENT holds %s: neither the old contents nor %s' % (shown, new.hex())
        ks = [ev_kind(e) for e in evs]
        ren_ok = [i for i, e in enumerate(evs) if ev_kind(e) == 'ren' and ev_err(e) is None]
        for e in evs:
            if ev_kind(e) == 'ren' and e.split('!')[0] != 'ren:%s:CURRENT' % tmp:
                return 'rename of something else: %s' % e
            if ev_kind(e) == 'unl' and e.split('!')[0] != 'unl:' + tmp:
                return 'unlink of something else: %s' % e
            if ev_kind(e) == 'o' and e.split('!')[0] != 'o:' + tmp:
                return 'open of something else: %s' % e
        if (rc == 'ok') != bool(ren_ok):
            return 'status %s but %s successful rename' % (rc, 'a' if ren_ok else 'no')
        if (rc == 'ok') != (shown == new.hex()):
            return 'status %s but CURRENT holds %s' % (rc, shown)
        names = [] if listing == '-' else listing.split(',')
        if names != sorted(names) or any(x not in ('CURRENT', tmp) for x in names):
            return 'strange listing %s' % listing
        if ('CURRENT' in names) != (pre == 1 or rc == 'ok'):
            return 'listing %s: CURRENT %s' % (listing, 'missing' if 'CURRENT' not in names else 'appeared without a rename')
        if ren_ok:
            if len(ren_ok) != 1:
                return 'renamed twice'
            i = ren_ok[0]
            before = evs[:i]
            kb = ks[:i]
            if transferred(before) != len(new):
                return 'renamed after only %d of %d bytes were written' % (transferred(before), len(new))
            if before.count('s') != 1 or before.count('c') != 1:
                return 'rename not preceded by exactly one successful fsync and close: %s' % ','.join(before)
            si, ci = before.index('s'), before.index('c')
            if not (max([j for j, k in enumerate(kb) if k == 'w']) < si < ci):
                return 'order is not writes, fsync, close, rename: %s' % ','.join(before)
            if any(k == 'unl' for k in ks):
                return 'temp file unlinked although the rename succeeded'
            if tmp in names:
                return 'temp file still listed after the rename'
            after = ks[i + 1:]
            if after and after[0] != 'od':
                return 'after the rename: %s' % ','.join(evs[i + 1:])
            if 'od' not in after:
                return 'directory not synced after the rename'
        else:
            if ks[-1] != 'unl':
                return 'failed set_current_file does not end with the removal of the temp file: %s' % ','.join(evs)[:200]
            unl = [e for e in evs if ev_kind(e) == 'unl']
            if tmp in names and (not ufault or any(ev_err(e) is None for e in unl)):
                return 'temp file left behind: %s' % listing
            if tmp in names and all(ev_err(e) for e in evs if ev_kind(e) == 'o'):
                return 'temp file listed though never created'
        return None
    return orc


def gen_current(rng, n):
    cases = []
    base = []
    for items, exp in CUR_ORACLES:
        for pre in (0, 1):
            base.append((items, exp, pre))
    base = shuffle(rng, base)
    bi = 0
    while len(cases) < n:
        if bi < len(base) and (len(cases) < n * 3 // 4 or rng.chance(1, 2)):
            items, exp, pre = base[bi]
            bi += 1
        else:
            # random combination of up to three faults among retries
            items = []
            for _ in range(rng.range(1, 3)):
                k = rng.choice('owscru')
                j = rng.below(3)
                items.append(('%sK*%d,' % (k, j) if j else '') + k + rng.choice('EBNVI'))
            if rng.chance(1, 3):
                items.append(rng.choice(['w1*16', 'wH*2', 'wI*2', 'w0', 'w5,wI,w5']))
            items = shuffle(rng, items)
            exp = None
            pre = rng.below(2)
        num = rng.choice(CUR_NUMBERS) if rng.chance(7, 8) else rng.below(1 << 64)
        ufault = any(x[0] == 'u' or ',u' in x for x in items)
        req = 'wcurrent %d %d %s' % (num, pre, oracle_arg(items))
        cases.append(Case('wf-current', req, oracle=oracle_current(num, pre, ufault, exp), meta={'expect': exp}))
    return cases


# ------------------------------------------------------------------ malformed
def gen_malformed(rng, n):
    pool = [
        'wfile l wX a:01', 'wfile l xK a:01', 'wfile l w a:01', 'wfile l wK*0 a:01', 'wfile l wK*5000 a:01', 'wfile l wK*4097 a:01',
        'wfile l wK* a:01', 'wfile l wK*2*3 a:01', 'wfile l sH a:01,s', 'wfile l s3 a:01,s', 'wfile l sM1 a:01,s', 'wfile l oH s',
        'wfile l wM a:01', 'wfile l wMx a:01', 'wfile l w-1 a:01', 'wfile l wK, a:01', 'wfile l ,wK a:01', 'wfile l wK,,wE a:01',
        'wfile l cE*x a:01,c', 'wfile l we a:01', 'wfile l wk a:01', 'wfile l K a:01',
        'wfile l - a:01,c,f', 'wfile l - c,c', 'wfile m - c,a:01', 'wfile l - a:01,c,c', 'wfile m - s,c,s,c',
        'wfile x - a:01', 'wfile ml - a:01', 'wfile - - a:01', 'wfile L - a:01', 'wfile M - f',
        'wfile l - a:0g', 'wfile l - a:012', 'wfile l - a', 'wfile l - r:zz', 'wfile l - r', 'wfile l - x', 'wfile l - a:01,,f',
        'wfile l - a:01,', 'wfile l - ,a:01', 'wfile l - F', 'wfile l - S', 'wfile l - a:@1', 'wfile l - a:=g1~3', 'wfile l - a:%1~5~0',
        'wfile l - b:01', 'wfile l - a;01', 'wfile l - fs', 'wfile l - f:01', 'wfile l - c:01',
        'wfile l -', 'wfile l', 'wfile', 'wfile l - a:01 extra', 'wfile  l - a:01',
        'wfilefile x5 1 - 4142', 'wfilefile m 1 - 4142', 'wfilefile 5 1 - 4142', 'wfilefile m-1 1 - 4142', 'wfilefile mx 1 - 4142',
        'wfilefile CC 1 - 4142', 'wfilefile c 1 - 4142', 'wfilefile C5 0 - 4142', 'wfilefile M5 0 - 4142',
        'wfilefile m1234567890123456789012 1 - 4142', 'wfilefile d5 2 - 4142', 'wfilefile d5 - - 4142', 'wfilefile d5 x - 4142',
        'wfilefile d5 01 - 4142', 'wfilefile d5 1 wQ 4142', 'wfilefile d5 1 - 414', 'wfilefile d5 1 - zz', 'wfilefile d5 1 -',
        'wfilefile d5 1', 'wfilefile d5', 'wfilefile', 'wfilefile d5 1 - 4142 x', 'wfilefile d5 1 uH 4142', 'wfilefile d5 1 r3 4142',
        'wcurrent x 0 -', 'wcurrent -1 0 -', 'wcurrent 5 2 -', 'wcurrent 5 x -', 'wcurrent 5 0 wQ', 'wcurrent 5 0', 'wcurrent 5',
        'wcurrent', 'wcurrent 18446744073709551616 0 -', 'wcurrent 99999999999999999999999 1 -', 'wcurrent 5 0 - x', 'wcurrent 5 0 cK*0',
        'wcurrent 5 0 uE*4097', 'wcurrent 5.0 0 -', 'wcurrent 0x5 0 -', 'wcurrent 5 1 oH', 'wcurrent 5 1 o7',
        'wfilex l - a:01', 'wcurrentx 5 0 -', 'wfilefil d5 1 - 4142',
    ]
    out = []
    order = shuffle(rng, pool)
    for i in range(n):
        if i < len(order):
            req = order[i]
        else:
            # a valid request with one character of its oracle / ops damaged
            req = rng.choice(['wfile l wK*3,sI a:0102,f,a:0a0b0c0d0e0f1011,s,c', 'wfilefile d5 1 wK,sK 4142', 'wcurrent 5 1 sE,uE'])
            f = req.split(' ')
            fi = rng.range(1, len(f) - 1)
            s = f[fi]
            pos = rng.below(len(s))
            f[fi] = s[:pos] + rng.choice('xQ#/!Z;') + s[pos + 1:]
            req = ' '.join(f)
        out.append(Case('wf-malformed', req, oracle=lambda r: None if r == 'bad-op' else 'malformed request answered with %s' % str(r)[:100]))
    return out


# ------------------------------------------------------------------ entry points
def gen_wfile(rng, n=2000):
    """the slice's whole stream.
    NOTE on what is NOT asserted: scripts mixing plain appends with log records under faults.  ldb_writer_add_record
    ignores the status of the append that zero-fills a block trailer; with the log writer alone the buffer is empty at
    that point (every fragment ends with a flush) so nothing can fail there, but after a plain `a:` append left the
    buffer nearly full the trailer append flushes, and a failure of that flush is dropped.  wf-fault therefore uses
    appends only or records only."""
    nn = n * 30 // 100
    nr = n * 12 // 100
    nf = n * 25 // 100
    nfi = n * 15 // 100
    nc = n * 15 // 100
    nb = max(n - nn - nr - nf - nfi - nc, 0)
    return (gen_nofault(rng.fork('nofault'), nn) + gen_record(rng.fork('record'), nr) + gen_fault(rng.fork('fault'), nf)
            + gen_file(rng.fork('file'), nfi) + gen_current(rng.fork('current'), nc) + gen_malformed(rng.fork('bad'), nb))


def distribution(cases, c_out):
    """counters over the implementation's responses.
    append_flush  : `a:` ops that emitted at least one write (the copy filled the buffer and it was flushed; the first
                    request of such an op is the full buffer, `w:65536:`)
    append_direct : `a:` ops with two write loops (flush of the buffer, then the rest >= 65536 written directly from the
                    caller's memory).  A loop is recognised by its requests: inside one ldb_write loop every request is the
                    previous one minus what was transferred, so a request that does not continue the previous one starts a
                    new loop; exact as long as the first loop did not fail.
    short_writes / eintr : events, over all commands.  errors_<tag> : ops of wfile scripts returning non-ok."""
    d = {'requests': 0, 'ops': 0, 'append_flush': 0, 'append_direct': 0, 'req_direct': 0, 'req_flush': 0, 'short_writes': 0, 'eintr': 0,
         'w_events': 0, 'file_err': 0, 'current_err': 0}
    for t in 'afscr':
        d['errors_' + t] = 0
    for c, r in zip(cases, c_out):
        if not r or r == 'bad-op' or r.startswith('fault'):
            continue
        f = c.req.split(' ')
        d['requests'] += 1
        try:
            if f[0] == 'wfile':
                tags = [] if f[3] == '.' else [x[0] for x in f[3].split(',')]
                rs = [] if r.split(' ')[0] == '.' else [parse_opres(x) for x in r.split(' ')[0].split(';')]
                direct = flush = False
                for tag, pr in zip(tags, rs):
                    if pr is None:
                        continue
                    rc, evs = pr
                    d['ops'] += 1
                    if rc != 'ok':
                        d['errors_' + tag] += 1
                    _count_events(d, evs)
                    if tag == 'a' and any(ev_kind(e) == 'w' for e in evs):
                        d['append_flush'] += 1
                        flush = True
                        if bursts(evs) >= 2:
                            d['append_direct'] += 1
                            direct = True
                d['req_direct'] += direct
                d['req_flush'] += flush
            else:
                pr = parse_opres(r.split(' ')[0])
                if pr is None:
                    continue
                d['ops'] += 1
                if pr[0] != 'ok':
                    d['file_err' if f[0] == 'wfilefile' else 'current_err'] += 1
                _count_events(d, pr[1])
        except (ValueError, IndexError):
            continue
    return d


def _count_events(d, evs):
    for e in evs:
        if ev_err(e) == 'eintr':
            d['eintr'] += 1
        if ev_kind(e) == 'w':
            d['w_events'] += 1
            req, k, er = parse_w(e)
            if er is None and k < req:
                d['short_writes'] += 1
