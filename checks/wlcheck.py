"""boilerplate for the properties decided by trace validation of whole-database histories"""
import json, os
import vlib, wl_run
from common import lean_stage
from vlib import Check

RULE = ('histories generated from VERIF_SEED by checks/wl_gen.py (families: random walk, overwrite-under-snapshot chain, tombstone-over-deeper-value, '
        'disjoint ranges, case-folding comparator with randomly spelled keys, level-0 chains with partial manual compactions, one user key split over adjacent files with neighbouring-range compactions, data pushed down to the deepest level, seek-triggered compactions at level 0 and level 1 (>= 100 lookups charged to one table); 11 option sets incl. 4 comparators, compression, filters, tiny caches, no-mmap, reuse_logs, paranoid) run on the real database '
        '(ASan+UBSan build of the current tree) with a 64 KiB write buffer; every applied version edit, table content, get, iterator step and directory '
        'listing is validated by lean tracecheck against the Lsm model (stepOk, invCheck, Lsm.get; the level of every flush is recomputed with Policy.pickLevel, the input sets of every compaction with Policy.setupStage1, the output of every non-trivial compaction is recomputed with Compaction.expectedOutput from the model copies of its inputs and compared entry by entry) and against the plain history of writes; '
        'a history is non-trivial when it contains >= 1 flush and >= 1 compaction; distinct = distinct (family, options, counters)')


def run(pid, tier, tags, theorems, imports, targets, quick=(24, 45), thorough=(400, 120), families=None, extra=None, journal=False, oracle_tags=()):
    chk = Check(pid, tier)
    lean_stage(chk, theorems, imports, list(targets) + ['tracecheck'])
    n, nops = quick if tier == 'quick' else thorough
    chk.rules.append(RULE)
    if families:
        per = max(1, n // len(families))
        for fam in families:
            wl_run.run_histories(chk, per, nops, tags, 'histories-' + fam, family=fam, journal=journal, oracle_tags=oracle_tags)
    else:
        wl_run.run_histories(chk, n, nops, tags, 'histories', journal=journal, oracle_tags=oracle_tags)
    for fam in ('casefold', 'l0chain', 'splitkey', 'deep', 'seekcompact'):
        if not families or fam not in families:
            wl_run.run_histories(chk, max(6, n // 4), nops, tags, 'histories-' + fam, family=fam, journal=journal, oracle_tags=oracle_tags)
    if extra:
        extra(chk, tier)
    chk.assumptions += ['memtable and table files are abstracted as sorted runs (table bytes <-> run is C16; skiplist order is checked by the mem dumps)',
                        'API calls are issued from one thread, background work runs on the real background thread; the harness waits for quiescence after every call']
    return chk.finish()


def replay(pid, path):
    rp = json.load(open(path))
    wl_bin = vlib.build_harness('wl', 'asan', exclude=['db_impl.c'])
    if 'script' in rp:
        rc, out, err, problems, stats = wl_run.replay_script(wl_bin, rp['script'])
        print('rc', rc, 'stats', stats)
        for p in problems[:20]:
            print(p)
    elif 'request' in rp:
        # a request of one of the function-level suites attached to this property (checks/slices.py)
        unit = vlib.build_harness('unit', 'asan', exclude=['util/crc32c.c'])
        print('C    :', vlib.serve(unit, [rp['request']], vlib.asan_env())[0])
        print('model:', vlib.serve(os.path.join(vlib.LEAN, '.lake', 'build', 'bin', 'modeld'), [rp['request']], None)[0])
    elif 'forge' in rp:
        fbin = vlib.build_harness('forge', 'asan', exclude=[])
        print(vlib.serve(fbin, [rp['forge']], vlib.asan_env())[0])
    else:
        print(json.dumps(rp, indent=1)[:3000])
    return 0
