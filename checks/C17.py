"""C17 — version metadata is encoded exactly and switched atomically."""
import vlib, gens
from common import Case, lean_stage, run_cases, load_corpus
from vlib import Check, Rng

PID = 'C17'
THEOREMS = [
    'Lcdb.varint32_roundtrip',
    'Lcdb.varint64_roundtrip',
    'Lcdb.varint32_fifth_byte_truncates',
    'Lcdb.sliceRead_sliceEnc',
    'Lcdb.fixedDec_fixedEnc',
    'Lcdb.ConstsOk.editTags_ok',
    'Lcdb.C17.edit_roundtrip',
    'Lcdb.C17.decode_total',
    'Lcdb.C17.editDecodeGo_fuel',
    'Lcdb.C17.decode_last_scalar_wins',
    'Lcdb.C17.setInsert_sorted',
    'Lcdb.C17.edit_roundtrip_needs_sorted',
]
IMPORTS = ['LcdbModel.Props.C17']
TARGETS = ['LcdbModel.Props.C17']


def unit_cases(tier, rng):
    big = tier == 'thorough'
    cases = gens.gen_varint(rng, 400 if not big else 20000, 400 if not big else 20000, 600 if not big else 30000)
    cases += gens.gen_edit(rng, 150 if not big else 3000, many=big)
    cases += gens.gen_edit_arbitrary(rng, 500 if not big else 30000)
    return cases


def run(tier):
    chk = Check(PID, tier)
    rng = Rng(chk.seed).fork(PID)
    unit = vlib.build_harness('unit', 'asan', exclude=['util/crc32c.c'])
    lean_stage(chk, THEOREMS, IMPORTS, TARGETS)
    cases = [Case('corpus', r) for r in load_corpus(PID)] + unit_cases(tier, rng)
    chk.rules.append('varint32/64 values at 2^(7k) boundaries, 2^32-1, 2^64-1 and random; malformed varints; version edits with every field present/absent, '
                     'levels 0..6, boundary numbers, many files, shuffled field order; tag streams with boundary values and truncations; '
                     'non-trivial = response not fail/empty, distinct = distinct (suite, response)')
    run_cases(chk, cases, unit, reference_suites={'edit-roundtrip', 'varint-enc', 'varint-dec'})
    import wl_checks
    wl_checks.c17_part(chk, tier, rng)
    # CURRENT must keep naming a complete MANIFEST also when a call fails inside the roll-over
    import crashcheck
    crashcheck.window_faults(chk, tier, ['reopen', 'reopen-reuse'], tags={'faultreopen', 'crashopen'}, label='rollover-faults')
    return chk.finish()


def replay(path):
    import json
    rp = json.load(open(path))
    unit = vlib.build_harness('unit', 'asan', exclude=['util/crc32c.c'])
    print(vlib.serve(unit, [rp['request']], vlib.asan_env())[0])
    return 0
