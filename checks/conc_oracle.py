"""Linearizability / atomicity oracle for transcripts of harness/conc.c (single-writer keys, versions).

Each writer thread issues its operations sequentially, so the state of the keys it owns after its j-th
operation is a known vector; every read must be explained by a prefix length j inside the window
[ops completed before the read was invoked .. ops invoked before the read returned]."""
import re

KEYS = 4


def parse(out):
    thr = {}
    ops = {}     # (tid, n) -> dict
    problems = []
    final = None
    done = False
    lines = out.split('\n')
    if lines and not out.endswith('\n'):
        lines = lines[:-1]          # the process died in the middle of a line: drop the fragment
    for line in lines:
        f = line.split()
        if not f:
            continue
        if f[0] == 'inv' and (len(f) < 5 or not f[-1].startswith('@')):
            continue
        if f[0] == 'thr':
            thr[int(f[1])] = (f[2], int(f[3]))
        elif f[0] == 'inv':
            t, n = int(f[1]), int(f[2])
            ops[(t, n)] = {'tid': t, 'n': n, 'op': f[3], 'args': f[4:-1], 'inv': int(f[-1][1:]), 'ret': None, 'res': None}
        elif f[0] == 'ret':
            t, n = int(f[1]), int(f[2])
            o = ops.get((t, n))
            if o is None:
                problems.append('ret without inv: ' + line[:80])
                continue
            o['ret'] = int(f[-1][1:])
            o['res'] = f[3:-1]
        elif f[0] == 'final':
            final = dict(x.split('=') for x in f[1:])
        elif f[0] == 'OVERLAP':
            problems.append('VIOLATION[layout] the current version has overlapping files above level 0: ' + line[:120])
        elif f[0] in ('DEADLOCK', 'LIVELOCK', 'SCHED-ERROR'):
            problems.append('VIOLATION[deadlock] ' + line[:200])
        elif f[0] == 'done':
            done = True
    return thr, ops, final, done, problems


def writer_states(thr, ops):
    """per writer index: list of ops in program order and the state vector after each prefix"""
    res = {}
    for tid, (role, idx) in thr.items():
        if role != 'W':
            continue
        mine = sorted([o for (t, n), o in ops.items() if t == tid], key=lambda o: o['n'])
        state = ['-'] * KEYS
        states = [list(state)]
        for o in mine:
            if o['op'] == 'P':
                k = int(o['args'][0].split('k')[1]); state[k] = o['args'][1]
            elif o['op'] == 'D':
                k = int(o['args'][0].split('k')[1]); state[k] = '-'
            elif o['op'] == 'B':
                state = [o['args'][1]] * KEYS
            states.append(list(state))
        res[idx] = (mine, states)
    return res


def window(mine, inv, ret):
    """prefix lengths j that may explain a read over [inv, ret]: every op that returned before inv is included,
    no op invoked after ret is included"""
    lo = 0
    for i, o in enumerate(mine):
        if o['ret'] is not None and o['ret'] < inv:
            lo = i + 1
    hi = 0
    for i, o in enumerate(mine):
        if o['inv'] < ret:
            hi = i + 1
    return lo, max(lo, hi)


def sync_durability(out, ops):
    """C02 at the moment of acknowledgement: when the leader of a commit group re-acquires the mutex after its log I/O, every
    byte of the log must be covered by an fsync if the group contains a sync write (that write is acknowledged next, and a power
    failure right then keeps only what was fsynced).  The group is read off the writer queue printed by consecutive `cs` lines."""
    problems = []
    cur_q = []
    cur_op = {}          # tid -> (n, sync) of the write in flight
    prev_ls = None
    nsync_groups = 0
    for line in out.split('\n'):
        f = line.split()
        if not f:
            continue
        if f[0] == 'inv' and f[3] in ('P', 'D', 'B'):
            cur_op[int(f[1])] = (int(f[2]), f[-2] == '1')
        elif f[0] == 'cs':
            kv = dict(x.split('=', 1) for x in f[3:] if '=' in x)
            if 'q' not in kv or 'ls' not in kv:
                continue          # a line cut short by a crash or a timeout
            q = [] if kv['q'] == '.' else [int(x.rstrip('d')) for x in kv['q'].split(',')]
            ls = int(kv['ls'])
            t = int(f[1])
            if prev_ls is not None and ls > prev_ls and 'loglen' in kv:
                # a commit: the leader popped a prefix of the queue
                npop = len(cur_q) - len(q)
                group = cur_q[:npop] if npop > 0 and cur_q[npop:] == q else [t]
                syncers = [m for m in group if cur_op.get(m, (0, False))[1]]
                if syncers:
                    nsync_groups += 1
                    if int(kv['synced']) < int(kv['loglen']) and kv.get('err') == '0':
                        n = cur_op[syncers[0]][0]
                        rc = ops.get((syncers[0], n), {}).get('res')
                        if rc is None or rc == ['0']:
                            problems.append('VIOLATION[syncdurable] the sync write #%d of thread %d was committed in a group led by thread %d while only %s of the %s log bytes '
                                            'were covered by an fsync: it is acknowledged although a power failure now would lose it' % (n, syncers[0], t, kv['synced'], kv['loglen']))
            prev_ls = ls
            cur_q = q
    return problems, nsync_groups


def check(out, fault_run=False):
    thr, ops, final, done, problems = parse(out)
    sp, nsg = sync_durability(out, ops)
    problems += sp[:2]
    ws = writer_states(thr, ops)
    stats = {'ops': len(ops), 'reads': 0, 'snapshots': 0, 'scans': 0, 'writes': 0, 'overlapping_reads': 0, 'sync_groups_checked': nsg}
    for o in ops.values():
        if o['ret'] is None:
            problems.append('VIOLATION[stuck] operation %s of thread %d never returned' % (o['op'], o['tid']))
    last_seen = {}     # key -> list of (ret, inv, prefix lower bound) for monotonic reads
    reads = []
    for o in sorted(ops.values(), key=lambda o: (o['ret'] if o['ret'] is not None else 1 << 60)):
        if o['ret'] is None:
            continue
        if o['op'] in ('P', 'D', 'B'):
            stats['writes'] += 1
            if o['res'] != ['0'] and not fault_run:
                problems.append('VIOLATION[write] write returned %s' % o['res'])
        elif o['op'] == 'G':
            stats['reads'] += 1
            key, val = o['res'][0].split('=')
            wi, kj = int(key[1:].split('k')[0]), int(key.split('k')[1])
            if wi not in ws:
                continue
            mine, states = ws[wi]
            lo, hi = window(mine, o['inv'], o['ret'])
            if hi > lo:
                stats['overlapping_reads'] += 1
            cands = [j for j in range(lo, hi + 1) if states[j][kj] == val]
            if val.startswith('E'):
                problems.append('VIOLATION[read] get %s failed: %s' % (key, val))
            elif not cands:
                problems.append('VIOLATION[linearizable] get %s over steps [%d,%d] returned version %s; the writes that may be visible then give %s' % (
                    key, o['inv'], o['ret'], val, sorted(set(states[j][kj] for j in range(lo, hi + 1)))))
            else:
                reads.append((key, o['inv'], o['ret'], min(cands), max(cands)))
        elif o['op'] == 'S':
            stats['snapshots'] += 1
            wi = int(o['args'][0][1:])
            if wi not in ws:
                continue
            mine, states = ws[wi]
            vec = ['-'] * KEYS
            for kv in o['res']:
                if kv.startswith('CHANGED:'):
                    _, ck, a, b = kv.split(':')
                    problems.append('VIOLATION[snapstable] key %s read twice through one snapshot over steps [%d,%d] gave version %s, then %s: the snapshot is not an immutable view' % (ck, o['inv'], o['ret'], a, b))
                    continue
                k, v = kv.split('=')
                vec[int(k.split('k')[1])] = v
            lo, hi = window(mine, o['inv'], o['ret'])
            if not any(states[j] == vec for j in range(lo, hi + 1)):
                problems.append('VIOLATION[snapshot] snapshot read of writer %d over steps [%d,%d] saw %s, which is not the state after any admissible prefix of its writes (a batch seen in part, or a torn view): admissible %s' % (
                    wi, o['inv'], o['ret'], vec, [states[j] for j in range(lo, hi + 1)][:6]))
        elif o['op'] == 'I':
            stats['scans'] += 1
            seen = {}
            for kv in o['res']:
                if kv == 'UNSORTED' or kv.startswith('STATUS'):
                    problems.append('VIOLATION[scan] iterator reported %s' % kv)
                    continue
                k, v = kv.split('=')
                seen[k] = v
            chosen = {}
            for wi, (mine, states) in ws.items():
                vec = [seen.get('w%dk%d' % (wi, j), '-') for j in range(KEYS)]
                lo, hi = window(mine, o['inv'], o['ret'])
                js = [j for j in range(lo, hi + 1) if states[j] == vec]
                if not js:
                    problems.append('VIOLATION[scan] full scan over steps [%d,%d] saw %s for writer %d: not the state after any admissible prefix of its writes' % (o['inv'], o['ret'], vec, wi))
                else:
                    chosen[wi] = (js, mine)
            # one point in time for all writers: if the scan includes op b of writer v, it includes every op of other writers that returned before b was invoked
            for v, (jsv, minev) in chosen.items():
                jv = min(jsv)
                if jv == 0:
                    continue
                b = minev[jv - 1]
                for u, (jsu, mineu) in chosen.items():
                    if u == v:
                        continue
                    need = 0
                    for i, a in enumerate(mineu):
                        if a['ret'] is not None and a['ret'] < b['inv']:
                            need = i + 1
                    if max(jsu) < need:
                        problems.append('VIOLATION[scan] full scan is not a single point in time: it includes write #%d of writer %d but not write #%d of writer %d that completed earlier' % (jv, v, need, u))
    # monotonic reads per key
    for key in set(r[0] for r in reads):
        rs = sorted([r for r in reads if r[0] == key], key=lambda r: r[2])
        for i, a in enumerate(rs):
            for b in rs[i + 1:]:
                if a[2] < b[1] and b[4] < a[3]:
                    problems.append('VIOLATION[monotonic] reads of %s went backwards: a read that ended at step %d saw write #%d or later, a read that began at step %d saw write #%d or earlier' % (key, a[2], a[3], b[1], b[4]))
    # final state
    if final is not None:
        for wi, (mine, states) in ws.items():
            for j in range(KEYS):
                k = 'w%dk%d' % (wi, j)
                if final.get(k, '-') != states[-1][j]:
                    problems.append('VIOLATION[final] after all threads finished %s = %s, the last acknowledged write says %s' % (k, final.get(k), states[-1][j]))
    elif not any('deadlock' in p for p in problems):
        problems.append('VIOLATION[stuck] the run did not reach its end')
    if not done and not any('deadlock' in p or 'stuck' in p for p in problems):
        problems.append('VIOLATION[stuck] close did not return')
    return problems, stats
