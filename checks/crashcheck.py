"""C02 / C03 / C05 / C12: crash-point and fault-injection histories on the real database,
validated by lean tracecheck (crash oracle + Disk monitor), plus the protocol theorems."""
import concurrent.futures as cf, json, os, re, shutil
import vlib, wl_run, crash_gen, fault_gen
from common import lean_stage
from vlib import Check, Rng

CRASH_RULE = ('write histories (sync/non-sync mix, flushes, manual compactions, reopen; 8 option sets incl. reuse_logs and paranoid) run on the real database with '
              'every file-system call journalled by libc interposition; for sampled journal prefixes x image variants (0 kill, 1 minimal power-loss, 2 directory-ahead-of-data, '
              '3 torn tails, 4 random admissible image) the image is materialised and reopened with the real code, all internal entries are dumped and lean tracecheck checks: '
              'open succeeds, nothing invented, contents = a per-log prefix of the issued batches, every required acknowledged batch present; the journal is abstracted to '
              'Disk.Ev and must satisfy Conforms/ConformsStrict (hypothesis of the durability theorems); non-trivial = >= 5 non-empty recovered images; distinct = distinct counters')


def run_crash(pid, tier, tags, theorems, imports, targets, variants, follow, quick=(10, 35, 45), thorough=(60, 80, 150), extra=None):
    chk = Check(pid, tier)
    lean_stage(chk, theorems, imports, list(targets) + ['tracecheck'])
    n, nops, points = quick if tier == 'quick' else thorough
    chk.rules.append(CRASH_RULE)
    fam = lambda rng, db, img, nops_: crash_gen.history(rng, db, img, nops_, variants, follow, points)
    wl_run.run_histories(chk, n, nops, tags, 'crash-histories', family=fam)
    if extra:
        extra(chk, tier)
    chk.assumptions += ['crash model exactly as stated in C02 (per-file byte prefix >= last fsync; directory operations in issue order, at least up to the last fsync of anything)',
                        'POSIX rename is atomic; the kernel honours fsync',
                        'crash points are system-call boundaries (plus cuts inside unsynced tails via variants 3/4); the tie "log number advanced => tables hold that log\'s data" is the Lsm flush contract checked by C01']
    return chk.finish()


# ---------------------------------------------------------------- C12
def _one_fault_run(args):
    wl_bin, pre, body, tail, k, errno, persistent, partial, kinds, idx = args
    d = vlib.scratch_dir('flt')
    try:
        # rewrite directories into this scratch dir
        def fix(l):
            return l.replace('@DB@', os.path.join(d, 'db'))
        lines = fault_gen.script([fix(l) for l in pre], [fix(l) for l in body], [fix(l) for l in tail], k, errno, persistent, partial, kinds, os.path.join(d, 'img'))
        rc, out, err = wl_run.run_script(wl_bin, lines, timeout=300)
        problems = []
        if rc != 0:
            first = ''
            for l in err.split('\n'):
                if 'ERROR' in l or 'runtime error' in l or 'TIMEOUT' in l or 'Assertion' in l:
                    first = l.strip()
                    break
            problems.append('VIOLATION[fault] the process crashed, hung or was stopped by a sanitizer under an injected I/O failure (rc=%d): %s' % (rc, first[:300]))
        p2, stats = wl_run.run_tracecheck(out)
        problems += p2
        m = re.search(r'faultstat calls=(\d+) fired=(\d+)(.*)', out)
        kc = dict((a, int(b)) for a, b in re.findall(r'(\w+)=(\d+)', m.group(3))) if m else {}
        return {'kindcount': kc, 'k': k, 'kinds': kinds, 'errno': errno, 'persistent': persistent, 'partial': partial, 'problems': problems, 'stats': stats,
                'calls': int(m.group(1)) if m else 0, 'fired': int(m.group(2)) if m else 0, 'lines': lines, 'idx': idx}
    finally:
        shutil.rmtree(d, ignore_errors=True)


def run_faults(pid, tier, theorems, imports, targets):
    chk = Check(pid, tier)
    lean_stage(chk, theorems, imports, list(targets) + ['tracecheck'])
    wl_bin = vlib.build_harness('wl', 'asan', exclude=['db_impl.c'])
    rng = Rng(chk.seed).fork(pid)
    nhist, per = (6, 22) if tier == 'quick' else (60, 120)
    jobs = []
    for h in range(nhist):
        hr = rng.fork('h%d' % h)
        if h % 2 == 0:
            opts, pre, body, tail = crash_gen.fault_family(hr, '@DB@', None)
        else:
            hh, pre, body, tail = fault_gen.base_history(hr, '@DB@', hr.choice(['wbuf=65536', 'wbuf=65536 reuse=1', 'wbuf=65536 comp=1 filter=10 mmap=0']))
        base = _one_fault_run((wl_bin, pre, body, tail, -1, 28, 0, 0, '', h))
        if base['problems']:
            chk.violation('fault-free baseline run already fails: %s' % base['problems'][0][:300], {'script': base['lines'], 'problems': base['problems'][:5]})
            continue
        K = max(1, base['calls'])
        for _ in range(per):
            kinds = hr.choice(['write', 'write', 'sync', 'open', 'rename', 'unlink', 'close', 'read', 'write,sync', ''])
            errno = hr.choice([28, 28, 5, 24, 2])
            persistent = 1 if hr.chance(1, 4) else 0
            partial = hr.choice([0, 0, 0, 1, 2, 2])
            kc = base['kindcount']
            first = kinds.split(',')[0] if kinds else ''
            kk = sum(kc.get(x, 0) for x in kinds.split(',')) if kinds else K
            if kk == 0:
                continue
            k = hr.below(kk)
            jobs.append((wl_bin, pre, body, tail, k, errno, persistent, partial, kinds, h))
    fired_total = 0
    results = []
    with cf.ThreadPoolExecutor(vlib.NPROC) as ex:
        for r in ex.map(_one_fault_run, jobs):
            results.append(r)
    nviol = 0
    mism = []
    kinds_hit = {}
    for r in results:
        fired_total += 1 if r['fired'] else 0
        if r['fired']:
            kinds_hit[r['kinds'] or 'any'] = kinds_hit.get(r['kinds'] or 'any', 0) + 1
        chk.note_case(('fault', r['idx'], r['k'], r['kinds'], r['errno'], r['persistent'], r['partial']), r['fired'] > 0)
        for p in r['problems']:
            if p.startswith('VIOLATION'):
                if nviol < 3:
                    chk.violation('fault-injection: %s (call #%d kinds=%s errno=%d persistent=%d partial=%d)' % (p[:400], r['k'], r['kinds'], r['errno'], r['persistent'], r['partial']),
                                  {'script': r['lines'], 'problems': r['problems'][:5]})
                nviol += 1
            else:
                mism.append((r, p))
    chk.rules.append('write/flush/compaction histories (half of them: one log, many small records crossing 32 KiB block boundaries) re-run with the k-th intercepted system call failing '
                     '(kinds open/write/fsync/rename/unlink/close/read, errno ENOSPC/EIO/EMFILE/ENOENT, one-shot or persistent; a failing write may first transfer half of the data, either reporting the error at once or reporting a short count and failing the retry); after the fault is cleared: more '
                     'writes, reads, kill image and clean close, each reopened with the real code; oracle: no crash/hang, reads correct, every acknowledged write present; '
                     'non-trivial = the fault actually fired; distinct = distinct (history, k, kind, errno, mode)')
    chk.extra['fault_runs'] = len(results)
    chk.extra['fault_runs_where_fault_fired'] = fired_total
    chk.extra['fired_by_kind'] = kinds_hit
    if results:
        r0 = next((r for r in results if r['fired']), results[0])
        chk.sample({'suite': 'fault-injection', 'k': r0['k'], 'kinds': r0['kinds'], 'errno': r0['errno'], 'script_head': r0['lines'][:10], 'stats': r0['stats']})
    detail = '%d runs, fault fired in %d' % (len(results), fired_total)
    if mism:
        detail += '; %d harness/model mismatches, first: %s' % (len(mism), mism[0][1][:300])
    chk.oblige('trace-validation:fault-injection', not mism, detail)
    window_faults(chk, tier, ['reopen', 'flush', 'compact', 'compact-cold', 'reopen-reuse'])
    chk.assumptions += ['faults are injected at the libc boundary of calls on files of the database directory (the info log is excluded)',
                        'a failed write(2) writes nothing, or half of its bytes in partial mode']
    return chk.finish()


WINDOWS = {
    # name: (what the window holds, lines run while the fault is armed)
    'reopen': lambda db, opts: ['close', 'open %s %s' % (db, opts)],
    'flush': lambda db, opts: ['flushmem'],
    'compact': lambda db, opts: ['compact 0 * *', 'compact 1 * *', 'compact 2 * *'],
    'reopen-reuse': lambda db, opts: ['close', 'open %s %s' % (db, opts), 'close', 'open %s %s' % (db, opts)],
    # the same compactions right after a reopen: the table cache is cold, so the compaction has to open (and read the footer,
    # index and blocks of) its input tables inside the window -- an error on the INPUT side of a compaction
    'compact-cold': lambda db, opts: ['compact 0 * *', 'compact 1 * *', 'compact 2 * *'],
}


def window_faults(chk, tier, windows, tags=None, label='window-faults'):
    """EVERY intercepted system call of a window (reopen = recovery + MANIFEST roll-over + CURRENT switch; memtable flush;
    manual compaction) fails in turn, for a few error kinds: a systematic enumeration, not a sample.  After the fault is
    cleared the database must open, hold every acknowledged write, and kill images taken at the end must recover."""
    import proto
    wl_bin = vlib.build_harness('wl', 'asan', exclude=['db_impl.c'])
    rng = Rng(chk.seed).fork(label)
    nh = 2 if tier == 'quick' else 12
    jobs = []
    for wname in windows:
        for h in range(nh):
            hr = rng.fork('%s%d' % (wname, h))
            opts = hr.choice(['wbuf=65536', 'wbuf=65536 reuse=1', 'wbuf=65536 paranoid=1']) if wname != 'reopen-reuse' else 'wbuf=65536 reuse=1'
            keys = [b'k%03d' % i for i in range(16)]
            pre = ['open @DB@ %s' % opts]
            sv = hr.below(1 << 20)
            for r in range(hr.range(1, 3)):
                for i in range(hr.range(3, 10)):
                    pre.append('put %s @%d~%d%s' % (proto.arg(hr.choice(keys)), sv + 17 * r + i, hr.range(50, 9000), ' sync' if hr.chance(1, 4) else ''))
                if hr.chance(2, 3):
                    pre.append('flushmem')
            for i in range(hr.range(1, 6)):
                pre.append('put %s @%d~%d' % (proto.arg(hr.choice(keys)), sv + 100 + i, hr.range(50, 3000)))     # left in the log / memtable
            if wname == 'compact-cold':
                pre += ['close', 'open @DB@ %s' % opts.replace(' reuse=1', '')]
            body = WINDOWS[wname]('@DB@', opts) + ['put %s @%d~%d' % (proto.arg(hr.choice(keys)), sv + 200, 777), 'get %s' % proto.arg(keys[0])]
            tail = ['ensureopen @DB@ %s' % opts, 'put %s @%d~%d sync' % (proto.arg(hr.choice(keys)), sv + 300, 99)] + ['get %s' % proto.arg(k) for k in keys]
            base = _one_fault_run((wl_bin, pre, body, tail, -1, 28, 0, 0, '', h))
            if base['problems']:
                chk.violation('%s: fault-free baseline run already fails: %s' % (label, base['problems'][0][:300]), {'script': base['lines'], 'problems': base['problems'][:5]})
                continue
            K = base['calls']
            modes = [(5, 0, 0), (28, 1, 0)] if tier == 'quick' else [(5, 0, 0), (28, 1, 0), (28, 0, 2), (24, 0, 0), (5, 1, 1)]
            for k in range(K):
                for (errno, persistent, partial) in modes:
                    jobs.append((wl_bin, pre, body, tail, k, errno, persistent, partial, '', '%s/%d' % (wname, h)))
            if wname == 'compact-cold':
                # every open(2) from the k-th on fails (descriptor exhaustion) while writes and syncs keep working: ALL inputs of
                # the compaction fail before yielding an entry, so no output table is ever opened -- the one place where only the
                # final status of the input iterator can report the error
                for k in range(min(4, base.get('kindcount', {}).get('open', 0))):
                    jobs.append((wl_bin, pre, body, tail, k, 24, 1, 0, 'open', '%s/%d' % (wname, h)))
    results = []
    with cf.ThreadPoolExecutor(vlib.NPROC) as ex:
        for r in ex.map(_one_fault_run, jobs):
            results.append(r)
    nv = 0
    mism = []
    fired = 0
    for r in results:
        fired += 1 if r['fired'] else 0
        chk.note_case((label, r['idx'], r['k'], r['errno'], r['persistent'], r['partial']), r['fired'] > 0)
        for p in r['problems']:
            m = re.match(r'(MISMATCH|VIOLATION)\[([^\]:]*)', p)
            tag = m.group(2) if m else 'other'
            if p.startswith('VIOLATION') and (tags is None or tag in tags or tag in ('fault', 'other')):
                if nv < 3:
                    chk.violation('%s: %s (window %s, call #%d errno=%d persistent=%d partial=%d)' % (label, p[:400], r['idx'], r['k'], r['errno'], r['persistent'], r['partial']),
                                  {'script': r['lines'], 'problems': r['problems'][:5]})
                nv += 1
            elif not p.startswith('VIOLATION'):
                mism.append((r, p))
    chk.rules.append('%s: windows %s; every intercepted call of the window fails in turn (EIO one-shot, ENOSPC persistent%s); afterwards the fault is cleared, the database '
                     'is opened if need be, written to and read; kill images at the end and after close are recovered; non-trivial = the fault fired' % (label, list(windows), '' if tier == 'quick' else ', short write then ENOSPC, EMFILE, partial EIO persistent'))
    chk.extra.setdefault('window_fault_runs', {})[label] = {'runs': len(results), 'fired': fired}
    detail = '%d runs, fault fired in %d' % (len(results), fired)
    if mism:
        detail += '; %d harness/model mismatches, first: %s' % (len(mism), mism[0][1][:300])
    chk.oblige('trace-validation:' + label, not mism, detail)


def replay(pid, path):
    rp = json.load(open(path))
    wl_bin = vlib.build_harness('wl', 'asan', exclude=['db_impl.c'])
    if 'script' in rp:
        rc, out, err, problems, stats = wl_run.replay_script(wl_bin, rp['script'])
        print('rc', rc, 'stats', stats)
        for p in problems[:20]:
            print(p)
    elif 'request' in rp:
        # a request of one of the function-level suites attached to this property (checks/slices.py)
        unit = vlib.build_harness('unit', 'asan', exclude=['util/crc32c.c'])
        print('C    :', vlib.serve(unit, [rp['request']], vlib.asan_env())[0])
        print('model:', vlib.serve(os.path.join(vlib.LEAN, '.lake', 'build', 'bin', 'modeld'), [rp['request']], None)[0])
    elif 'forge' in rp:
        fbin = vlib.build_harness('forge', 'asan', exclude=[])
        print(vlib.serve(fbin, [rp['forge']], vlib.asan_env())[0])
    else:
        print(json.dumps(rp, indent=1)[:3000])
    return 0
