"""C08 — Concurrent operations are linearizable"""
import conccheck

PID = 'C08'
THEOREMS = []
IMPORTS = ['LcdbModel.Props.C08']
TARGETS = ['LcdbModel.Props.C08']
OWN = set('linearizable,monotonic,snapshot,scan,final,write,read'.split(','))


def run(tier):
    return conccheck.run(PID, tier, THEOREMS, IMPORTS, TARGETS, OWN)


def replay(path):
    return conccheck.replay(PID, path)
