"""C08 — Concurrent operations are linearizable"""
import conccheck

PID = 'C08'
THEOREMS = [
    'Lcdb.C08.lastSeq_committed',
    'Lcdb.C08.committed_grows',
    'Lcdb.C08.commit_once',
    'Lcdb.C08.fifo_order',
    'Lcdb.C08.realtime_order',
    'Lcdb.C08.reader_linearizable',
    'Lcdb.C08.reads_monotone',
    'Lcdb.C08.reader_sees_write',
    'Lcdb.C08.final_state',
    'Lcdb.C08.sync_not_in_nonsync_group',
    'Lcdb.C04Conc.batch_atomic_for_readers',
    'Lcdb.C04Conc.group_preserves_batches',
]
IMPORTS = ['LcdbModel.Props.C08', 'LcdbModel.Props.C04Conc']
TARGETS = ['LcdbModel.Props.C08', 'LcdbModel.Props.C04Conc']
OWN = set('linearizable,monotonic,snapshot,scan,final,write,read,layout'.split(','))


def run(tier):
    return conccheck.run(PID, tier, THEOREMS, IMPORTS, TARGETS, OWN)


def replay(path):
    return conccheck.replay(PID, path)
