"""C11 — corrupted files are detected, never turned into wrong answers."""
import vlib, wl_run, wlcheck
from common import Case, lean_stage, run_cases, load_corpus
from vlib import Check, Rng

PID = 'C11'
THEOREMS = [
    'Lcdb.TableProps.altered_table_partial', 'Lcdb.TableProps.single_byte_alteration_detected', 'Lcdb.TableProps.single_byte_scan', 'Lcdb.TableProps.readBlock_ok_crc',
    'Lcdb.crc_detects_single_byte', 'Lcdb.crcBit_injective', 'Lcdb.crcFeed_injective', 'Lcdb.crcMask_injective', 'Lcdb.mask_unmask',
    'Lcdb.footer_padding_irrelevant', 'Lcdb.footerRead_some_iff_magic', 'Lcdb.C15.read_sound', 'Lcdb.C04.iterate_count', 'Lcdb.C04.prefix_rejected',
    'Lcdb.CrcTablesOk.byteExtTable_ok',
]
IMPORTS = ['LcdbModel.Props.C11']
TARGETS = ['LcdbModel.Props.C11']


def run(tier):
    chk = Check(PID, tier)
    rng = Rng(chk.seed).fork(PID)
    lean_stage(chk, THEOREMS, IMPORTS, TARGETS + ['tracecheck'])
    unit = vlib.build_harness('unit', 'asan', exclude=['util/crc32c.c'])
    big = tier == 'thorough'
    import C15
    cases = [c for c in C15.gen('quick' if not big else 'thorough', rng.fork('log')) if c.suite == 'log-alter']
    import gens_table
    tcases = gens_table.gen_table_mut(rng.fork('tmut'), 500 if not big else 4000)
    # deterministic witness of the listed footer finding (so that its KNOWN-FINDING line appears on every run)
    def tf1_oracle(resp):
        return 'C11: a scan of the altered table finished OK but returned no entries (the original holds 3)' if resp.endswith(' . ok') else None
    tcases.append(Case('table-mut-footer', 'tmut bs=64,ri=21,comp=0,fb=0,cmp=rev 61ff6262620000000000000000=-;6100ffffffffffffff=-;01257c0000000000=c2ef s:92:66,s:93:21,s:94:53,s:95:8 1 1 scan', oracle=tf1_oracle))
    # C11 asks only that damage never yields a record that was not written; whether the drop is reported is C15's business
    for c in cases:
        if c.oracle is not None:
            c.oracle = (lambda orc: (lambda resp: (lambda w: None if (w or '').startswith('SILENT') else w)(orc(resp))))(c.oracle)
    run_cases(chk, cases, unit)
    listed = [f for f in vlib.load_findings().get('known', []) if f.get('property') == PID and f.get('signature') == 'T-F1']

    def table_known(case, resp, why):
        if listed and case.suite == 'table-mut-footer' and why and 'C11' in why:
            return listed[0]['text']
        return None
    run_cases(chk, tcases, unit, known=table_known)
    chk.rules.append('WAL alterations (bit flips, 0x00/0xFF, zeroed sectors) through the real log reader: never a record that was not written; whole databases (several tables of several '
                     'blocks, optional compression and filters, data left in the log) copied and damaged in one file -- table files at positions spread over the whole file (bit flips, byte set '
                     'to 0x00/0xFF, truncation, zero-filled 512 B sector), logs, MANIFEST, CURRENT -- then opened with paranoid checks, every key looked up with checksum verification and scanned in '
                     'both directions: with table damage every answer is the right one or an error and an OK scan is complete; with log/MANIFEST/CURRENT damage no value appears that was never written')
    n, nops = (10, 30) if not big else (60, 100)
    wl_run.run_histories(chk, n, nops, {'corrupt', 'get'}, 'damaged-databases', family='corrupt')
    chk.assumptions += ['alterations confined to one byte of a checksummed region are detected unconditionally (crc_detects_single_byte); truncations, zeroed sectors and multi-byte '
                        'alterations are detected unless the CRC-32C of the altered block collides (probability 2^-32 per block)',
                        'damage to the footer handles is detected through the bounds and CRC checks of the blocks they point to']
    return chk.finish()


def replay(path):
    import json
    rp = json.load(open(path))
    if 'request' in rp:
        unit = vlib.build_harness('unit', 'asan', exclude=['util/crc32c.c'])
        print(vlib.serve(unit, [rp['request']], vlib.asan_env())[0])
        return 0
    return wlcheck.replay(PID, path)
