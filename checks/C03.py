"""C03 — A process crash loses nothing acknowledged"""
import crashcheck

PID = 'C03'
TAGS = {'crashkill', 'crashopen', 'crashview', 'crashinvented', 'recover', 'conforms', 'crashfollow', 'recoverynumbers'}
THEOREMS = [
    'Lcdb.C03.kill_recovers',
    'Lcdb.C03.kill_durable',
    'Lcdb.C03.kill_order',
    'Lcdb.C03.kill_order_pos',
    'Lcdb.C03.appended_nodup',
]
IMPORTS = ['LcdbModel.Props.C03']
TARGETS = ['LcdbModel.Props.C03']


def run(tier):
    return crashcheck.run_crash(PID, tier, TAGS, THEOREMS, IMPORTS, TARGETS, '0', 'follow')


def replay(path):
    return crashcheck.replay(PID, path)
