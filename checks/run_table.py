#!/usr/bin/env python3
"""Differential run of the whole-table slice: C harness (ASan/UBSan, NDEBUG) vs. Lean model, plus the
property oracles of gens_table.py.   usage: run_table.py [seeds(comma) [ncases [big]]]   (lake build first)"""
import os, sys, time
from collections import Counter
HERE = os.path.dirname(os.path.abspath(__file__))
sys.path.insert(0, os.path.join(os.path.dirname(HERE), 'tools'))
sys.path.insert(0, HERE)
import vlib, gens_table
from vlib import Rng, Check
from common import run_cases


def run(seed, n, big, unit):
    cases = gens_table.gen_table(Rng(seed), n, big)
    chk = Check('TABLE', 'quick')
    t = time.time()
    c_out, m_out = run_cases(chk, cases, unit, known=gens_table.known_table_finding)
    bad = [o for o in chk.obligations if not o[1]]
    for o in bad:
        print('DISAGREEMENT', o[0], o[2][:1500])
    for v in chk.violations[:10]:
        print('ORACLE VIOLATION', v[0][:600], '| request:', v[1].get('request', '')[:400])
    for k in chk.known:
        print('KNOWN FINDING (%d cases this seed)' % len(gens_table.KNOWN_HITS), str(k)[:400])
    del gens_table.KNOWN_HITS[:]
    ndis = sum(1 for a, b in zip(c_out, m_out) if a != b)
    errs = sum(1 for r in c_out if r and gens_table.is_error(gens_table.split_mut_resp(r)[1] if ' ' in r else r))
    print('seed %d: %d cases %s; disagreeing cases %d; oracle violations %d; C faults %d; model faults %d; bad-op %d; '
          'responses reporting an error %d; %.1fs'
          % (seed, len(cases), dict(Counter(c.suite for c in cases)), ndis, len(chk.violations),
             sum(1 for r in c_out if r and r.startswith('fault')), sum(1 for r in m_out if r and 'fault' in r),
             sum(1 for r in c_out if r == 'bad-op'), errs, time.time() - t))
    sys.stdout.flush()
    return 1 if bad or chk.violations else 0


def main():
    seeds = [int(x) for x in (sys.argv[1] if len(sys.argv) > 1 else '1').split(',')]
    n = int(sys.argv[2]) if len(sys.argv) > 2 else 1600
    big = len(sys.argv) > 3 and sys.argv[3] == 'big'
    unit = vlib.build_harness('unit', 'asan', exclude=['util/crc32c.c'])
    rc = 0
    for s in seeds:
        rc |= run(s, n, big, unit)
    return rc


if __name__ == '__main__':
    sys.exit(main())
