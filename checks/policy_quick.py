#!/usr/bin/env python3
"""Differential run of the file-selection slice (src/version_set.c: find_file, some_file_overlaps_range,
get_overlapping_inputs, pick_level_for_memtable_output, add_boundary_inputs, setup_other_inputs via compact_range /
pick_compaction, is_trivial_move): C harness (ASan/UBSan, NDEBUG) vs. the Lean model, plus the property oracles and the
literal Python re-play of gens_policy.py.
usage: policy_quick.py [seed [ncases]]   (modeld must be built)"""
import os, sys, time
os.environ.setdefault('VERIF_JOBS', '4')
from collections import Counter
HERE = os.path.dirname(os.path.abspath(__file__))
sys.path.insert(0, os.path.join(os.path.dirname(HERE), 'tools'))
sys.path.insert(0, HERE)
import vlib, gens_policy
from vlib import Rng, Check
from common import run_cases

if os.environ.get('POLICY_ASAN_EXTRA'):
    # used by policy_mutants.py: a mutant may loop forever pushing files (hard_rss_limit_mb turns that into a fault)
    _asan_env = vlib.asan_env

    def _asan_env_extra():
        e = _asan_env()
        e['ASAN_OPTIONS'] += ':' + os.environ['POLICY_ASAN_EXTRA']
        return e
    vlib.asan_env = _asan_env_extra


def main():
    seed = int(sys.argv[1]) if len(sys.argv) > 1 else 1
    n = int(sys.argv[2]) if len(sys.argv) > 2 else 2400
    cases = gens_policy.gen_policy(Rng(seed), n)
    unit = vlib.build_harness('unit', 'asan', exclude=['util/crc32c.c'])
    chk = Check('POLICY', 'quick')
    t = time.time()
    c_out, m_out = run_cases(chk, cases, unit)
    bad = [o for o in chk.obligations if not o[1]]
    for o in bad:
        print('DISAGREEMENT', str(o)[:1500])
    for v in chk.violations[:10]:
        print('ORACLE VIOLATION', v[0][:600], v[1].get('request', '')[:900])
    ndis = sum(1 for i in range(len(cases)) if c_out[i] != m_out[i])
    nprop = sum(1 for v in chk.violations if '[ref]' not in v[0])
    nref = sum(1 for v in chk.violations if '[ref]' in v[0])
    unexpected_badop = Counter(c.suite for i, c in enumerate(cases) if c.suite != 'pol-bad' and c_out[i] == 'bad-op')
    dist = gens_policy.distribution(cases)
    resp = Counter()
    for i, c in enumerate(cases):
        r = c_out[i] or ''
        cmd = c.req.split(' ', 1)[0]
        kind = r if r in ('null', 'inverted', 'fault', 'bad-op') else ('fault:' if r.startswith('fault:') else 'answer')
        resp[(cmd, kind)] += 1
    print('distribution (tags from the Python re-play): ' + ', '.join('%s=%d' % kv for kv in sorted(dist.items())))
    print('C responses by command: ' + ', '.join('%s/%s=%d' % (k[0], k[1], v) for k, v in sorted(resp.items()) if k[0].startswith('p') and len(k[0]) < 12 and k[0] in
                                                 ('pfind', 'poverlap', 'pgoi', 'ppick', 'pboundary', 'prange', 'ppickc')))
    if unexpected_badop:
        print('UNEXPECTED bad-op in non-malformed suites:', dict(unexpected_badop))
    print('seed %d: %d cases %s; distinct responses %d; disagreements %d (suites %d); oracle violations %d (prop %d, ref %d); C faults %d; '
          'model faults %d; bad-op %d; %.1fs'
          % (seed, len(cases), dict(Counter(c.suite for c in cases)), len(set(c_out)), ndis, len(bad), len(chk.violations), nprop, nref,
             sum(1 for r in c_out if r and r.startswith('fault:')), sum(1 for r in m_out if r and r.startswith('fault:')),
             sum(1 for r in c_out if r == 'bad-op'), time.time() - t))
    return 1 if bad or chk.violations or unexpected_badop else 0


if __name__ == '__main__':
    sys.exit(main())
