"""Request generators with direct property oracles for the memtable slice
(skiplist.c, memtable.c, util/random.c: ldb_rand_next / ldb_skiplist_randheight).

Requests
  skl   <cmp> <ops>      ops  i:<ukey>:<seq>:<kind>:<val>  -> ok | dup
                              c:<ukey>:<seq>:<kind>        -> 1 | 0
                              g:<ukey>:<seq>               -> v:<bytes> | del | nf
                              S:<ukey>:<seq>, F, L, N, P   -> ukey,seq,kind,val | - | skip
                              D                            -> D<max_height>/<chain max_height-1>/.../<chain 0>
  rndh  <seed> <n>       -> the first n heights of ldb_skiplist_randheight after ldb_rand_init(seed)
  mtenc <ukey> <seq> <kind> <val>  -> <arena bytes of the entry> <internal key> <value>

Every oracle is computed here in Python: a sorted list of the entries present (internal-key order: user key
ascending per comparator, (seq<<8|kind) descending), a cursor that remembers its ENTRY, and an own
re-implementation of the Park-Miller generator / random_height for the tower heights (the skiplist seeds its
generator with the constant 0xdeadbeef, so the i-th successful insert of any memtable gets the i-th height).
None of them looks at the Lean model's answer."""
import functools
import proto
from common import Case
from gens_iterstack import CMPS, MAXSEQ, KEY_POOL, ucmp, icmp, sort_run

MAX_HEIGHT = 12
SKL_SEED = 0xdeadbeef
M31 = 2147483647


# ------------------------------------------------------------------ util/random.c, ldb_skiplist_randheight
def rand_init(seed):
    s = seed & 0x7fffffff
    if s == 0 or s == M31:      # "avoid bad seeds"
        s = 1
    return s


def rand_next(s):
    product = s * 16807                                      # uint64 product of the uint32 seed
    s = ((product >> 31) + (product & M31)) & 0xffffffff
    if s > M31:
        s -= M31
    return s


def rand_heights(seed, n):
    s = rand_init(seed)
    out = []
    for _ in range(n):
        h = 1
        while h < MAX_HEIGHT:                                # `height < 12 && one_in(4)`: no draw at height 12
            s = rand_next(s)
            if s % 4 != 0:
                break
            h += 1
        out.append(h)
    return out


HEIGHTS = rand_heights(SKL_SEED, 4096)


# ------------------------------------------------------------------ byte-string arguments
@functools.lru_cache(maxsize=4096)
def pb(a):
    return proto.parse_bytes(a)


def show_entry(e):
    return '%s,%d,%d,%s' % (proto.show_bytes(e[0]), e[1], e[2], proto.show_bytes(e[3]))


# ------------------------------------------------------------------ the reference memtable
class RefMem:
    """sorted list of (ukey, seq, kind, val, ordinal); the cursor is the current entry (or None)"""

    def __init__(self, cmp_name):
        self.cmp = cmp_name
        self.es = []
        self.n = 0
        self.cur = None

    def lb(self, t):
        """index of the first entry with internal key >= t"""
        lo, hi = 0, len(self.es)
        while lo < hi:
            mid = (lo + hi) // 2
            if icmp(self.cmp, self.es[mid], t) < 0:
                lo = mid + 1
            else:
                hi = mid
        return lo

    def has(self, k, q, t):
        i = self.lb((k, q, t))
        return i < len(self.es) and self.es[i][:3] == (k, q, t)

    def show_cur(self):
        return show_entry(self.cur) if self.cur is not None else '-'

    def dump(self):
        mh = max([1] + [HEIGHTS[e[4] - 1] for e in self.es])
        chains = []
        for lvl in range(mh - 1, -1, -1):
            c = [str(e[4]) for e in self.es if HEIGHTS[e[4] - 1] > lvl]
            chains.append('.'.join(c) if c else '-')
        return 'D%d/%s' % (mh, '/'.join(chains))

    def apply(self, o):
        f = o.split(':')
        c = f[0]
        if c == 'i':
            k, q, t, v = pb(f[1]), int(f[2]), int(f[3]), pb(f[4])
            i = self.lb((k, q, t))
            if i < len(self.es) and self.es[i][:3] == (k, q, t):
                return 'dup'
            self.n += 1
            self.es.insert(i, (k, q, t, v, self.n))
            return 'ok'
        if c == 'c':
            return '1' if self.has(pb(f[1]), int(f[2]), int(f[3])) else '0'
        if c == 'g':
            k, q = pb(f[1]), int(f[2])
            i = self.lb((k, q, 1))
            if i < len(self.es) and ucmp(self.cmp, self.es[i][0], k) == 0:
                e = self.es[i]
                if e[2] == 1:
                    return 'v:' + proto.show_bytes(e[3])
                if e[2] == 0:
                    return 'del'
            return 'nf'
        if c == 'D':
            return self.dump()
        if c == 'F':
            self.cur = self.es[0] if self.es else None
        elif c == 'L':
            self.cur = self.es[-1] if self.es else None
        elif c == 'S':
            i = self.lb((pb(f[1]), int(f[2]), 1))
            self.cur = self.es[i] if i < len(self.es) else None
        elif c in ('N', 'P'):
            if self.cur is None:
                return 'skip'
            i = self.lb(self.cur)
            assert self.es[i] is self.cur
            i = i + 1 if c == 'N' else i - 1
            self.cur = self.es[i] if 0 <= i < len(self.es) else None
        else:
            raise ValueError(o)
        return self.show_cur()


def run_ref(cmp_name, ops):
    """expected results and, for every D, the ordinals in sorted order at that moment"""
    ref = RefMem(cmp_name)
    exp, info = [], {}
    for i, o in enumerate(ops):
        exp.append(ref.apply(o))
        if o == 'D':
            info[i] = [e[4] for e in ref.es]
    return exp, info


def explain_dump(got, order):
    """which structural property a dump violates; `order` = ordinals in internal-key order"""
    if not got.startswith('D'):
        return 'not a dump: %s' % got[:80]
    parts = got[1:].split('/')
    try:
        mh = int(parts[0])
        chains = [[] if p == '-' else [int(x) for x in p.split('.')] for p in parts[1:]]
    except ValueError:
        return 'unparsable dump %s' % got[:120]
    want_mh = max([1] + [HEIGHTS[o - 1] for o in order])
    if mh != want_mh:
        return 'max_height %d, the height sequence dictates %d' % (mh, want_mh)
    if len(chains) != mh:
        return '%d chains for max_height %d' % (len(chains), mh)
    levels = chains[::-1]       # levels[i] = chain of level i
    if levels[0] != order:
        k = next((j for j, (a, b) in enumerate(zip(levels[0], order)) if a != b), min(len(levels[0]), len(order)))
        return ('level-0 chain (%d nodes) is not the %d entries in internal-key order: from position %d it reads %s, sorted order %s'
                % (len(levels[0]), len(order), k, levels[0][k:k + 8], order[k:k + 8]))
    for i in range(1, mh):
        it = iter(levels[i - 1])
        if not all(x in it for x in levels[i]):
            return 'level-%d chain is not a subsequence of level %d' % (i, i - 1)
    for i in range(mh):
        want = {o for o in order if HEIGHTS[o - 1] > i}
        if set(levels[i]) != want or len(levels[i]) != len(want):
            return 'level-%d chain holds %s, nodes of height > %d are %s' % (i, sorted(levels[i])[:30], i, sorted(want)[:30])
    return 'dump differs: %s' % got[:120]


def skl_oracle(cmp_name, ops, exp=None, info=None):
    if exp is None:
        exp, info = run_ref(cmp_name, ops)
    want = ';'.join(exp) if exp else '.'

    def oracle(resp):
        if resp == want:
            return None
        got = resp.split(';')
        if len(got) != len(exp):
            return 'wrong number of results: %d for %d ops' % (len(got), len(exp))
        for i, (g, e) in enumerate(zip(got, exp)):
            if g != e:
                if ops[i] == 'D':
                    return 'op %d (D after %d inserts): %s' % (i, len(info[i]), explain_dump(g, info[i]))
                return 'op %d (%s): the sorted list dictates %s, memtable shows %s' % (i, ops[i][:80], e[:120], g[:120])
        return 'differs'
    return oracle


# ------------------------------------------------------------------ data generation
def shuffle(rng, xs):
    xs = list(xs)
    for i in range(len(xs) - 1, 0, -1):
        j = rng.below(i + 1)
        xs[i], xs[j] = xs[j], xs[i]
    return xs


def long_key_arg(rng):
    """user keys of 112..130 bytes: varint32(len + 8) goes from one byte to two at len 120"""
    n = rng.choice([119, 120, 121, rng.range(112, 130), rng.range(120, 130)])
    j = rng.below(4)
    if j == 0:
        return rng.bytes(n).hex()
    if j == 1:
        return '@%d~%d' % (rng.below(1000), n)
    if j == 2:
        return '=%02x~%d' % (rng.below(256), n)
    return '%s+@%d~%d' % (rng.bytes(2).hex(), rng.below(1000), n - 2)


class Ctx:
    """per-case shapes: a small user-key alphabet (many versions per key), sequence space, kinds"""

    def __init__(self, rng, size, badkind=None):
        self.alpha = []
        for _ in range(rng.choice([1, 2, 2, 3, 3, 4, 5, 6, 8])):
            k = proto.arg(rng.choice(KEY_POOL))
            if k not in self.alpha:
                self.alpha.append(k)
        if rng.chance(1, 3):
            self.alpha.append(long_key_arg(rng))
        if rng.chance(1, 5) and '-' not in self.alpha:
            self.alpha.append('-')
        if rng.chance(1, 40):
            self.alpha.append('@%d~%d' % (rng.below(1000), rng.choice([16375, 16376, 16377])))    # varint32(len+8): 2 -> 3 bytes
        self.seqspace = rng.choice([size + 2, size + 2, 2 * size + 5, 10, 50, 300])
        self.big = rng.chance(1, 4)
        self.badkind = rng.chance(1, 4) if badkind is None else badkind
        self.randkeys = rng.choice([0, 5, 15, 40])      # percentage of keys outside the alphabet

    def key(self, rng):
        j = rng.below(100)
        if j >= self.randkeys:
            return rng.choice(self.alpha)
        j = rng.below(10)
        if j < 6:
            return rng.bytes(rng.range(1, 8)).hex()
        if j < 8:
            return proto.arg(pb(rng.choice(self.alpha))[:60] + bytes([rng.choice([0, 0x61, 0xff])]))
        if j < 9:
            return long_key_arg(rng)
        return proto.arg(rng.choice(KEY_POOL))

    def seq(self, rng):
        if self.big and rng.chance(1, 6):
            return rng.choice([0, MAXSEQ, MAXSEQ - 1, 1 << 32, (1 << 32) - 1, (1 << 48) + 5, 255, 256])
        return rng.below(self.seqspace + 1)

    def kind(self, rng):
        j = rng.below(100)
        if self.badkind and j < 20 or j < 2:
            return rng.choice([2, 3, 127, 128, 255, rng.range(2, 255)])
        return 1 if j < 70 else 0

    def val(self, rng, kind=1):
        if kind == 0 and rng.chance(4, 5):
            return '-'
        j = rng.below(40)
        if j < 4:
            return '-'
        if j < 25:
            return rng.bytes(rng.range(1, 6)).hex()
        if j < 29:
            return rng.bytes(rng.choice([39, 40, 41, 64])).hex()
        if j < 33:
            return '@%d~%d' % (rng.below(100000), rng.choice([127, 128, 129, 200, 300]))
        if j < 36:
            return rng.bytes(rng.range(100, 300)).hex()
        if j < 37:
            return '=%02x~%d' % (rng.below(256), rng.range(1, 500))
        if j < 38:
            return '%s+@%d~%d+%s' % (rng.bytes(1).hex(), rng.below(1000), rng.range(120, 135), rng.bytes(2).hex())
        if j < 39:
            return '@%d~%d' % (rng.below(100000), rng.range(1000, 3000))
        if rng.chance(1, 3):
            return '@%d~%d' % (rng.below(100000), rng.choice([16383, 16384, 16385, 20000]))
        return '@%d~%d' % (rng.below(100000), rng.choice([16383, 16384]) - rng.below(8000))

    def entry(self, rng):
        t = self.kind(rng)
        return (self.key(rng), self.seq(rng), t, self.val(rng, t))


def ins_op(e):
    return 'i:%s:%d:%d:%s' % e


def key_arg_of(k):
    """an argument spelling of explicit bytes (None if it would make the op too long for the harness)"""
    return proto.arg(k) if len(k) <= 400 else None


def pick_probe(rng, ctx, ref):
    """(key arg, seq) for a seek / get: present keys at / above / below a version, absent keys, both ends"""
    j = rng.below(20)
    ka = None
    if j < 9 and ref.es:
        ka = key_arg_of(rng.choice(ref.es)[0])
    if ka is None:
        if j < 12:
            ka = rng.choice(ctx.alpha)
        elif j < 13:
            ka = '-'                    # before the first key (bw, len), after the last (rev)
        elif j < 15:
            ka = 'ffffff' if rng.chance(1, 2) else '=ff~140'     # after the last key (bw, len), before the first (rev)
        elif j < 17:
            ka = proto.arg(pb(rng.choice(ctx.alpha))[:60] + bytes([rng.choice([0, 0x61, 0xff])]))
        else:
            ka = ctx.key(rng)
    k = pb(ka)
    seqs = sorted({e[1] for e in ref.es if e[0] == k})
    j = rng.below(10)
    if seqs and j < 7:
        q = rng.choice(seqs)
        if j == 4:
            q = min(q + 1, MAXSEQ)
        elif j == 5:
            q = max(q - 1, 0)
        elif j == 6:
            q = rng.choice([seqs[0], seqs[-1], max(seqs[0] - 1, 0), min(seqs[-1] + 1, MAXSEQ)])
    elif j < 8:
        q = ctx.seq(rng)
    else:
        q = rng.choice([0, 1, MAXSEQ, 1 << 32])
    return ka, q


def pick_contains(rng, ctx, ref):
    j = rng.below(10)
    if j < 6 and ref.es:
        e = rng.choice(ref.es)
        ka = key_arg_of(e[0])
        if ka is not None:
            q, t = e[1], e[2]
            if j == 3:
                t = rng.choice([0, 1, 2, 255, (t + 1) % 256])       # same (ukey, seq), possibly another kind
            elif j == 4:
                q = rng.choice([max(q - 1, 0), min(q + 1, MAXSEQ)])
            elif j == 5:
                ka = proto.arg(e[0][:60] + b'\x00')
            return 'c:%s:%d:%d' % (ka, q, t)
    ka, q = pick_probe(rng, ctx, ref)
    return 'c:%s:%d:%d' % (ka, q, ctx.kind(rng))


class Stream:
    """ops with the reference run alongside"""

    def __init__(self, cmp_name):
        self.cmp = cmp_name
        self.ref = RefMem(cmp_name)
        self.ops, self.exp, self.info = [], [], {}

    def emit(self, o):
        self.ops.append(o)
        r = self.ref.apply(o)
        self.exp.append(r)
        if o == 'D':
            self.info[len(self.ops) - 1] = [e[4] for e in self.ref.es]
        return r

    def case(self, suite):
        return Case(suite, 'skl %s %s' % (self.cmp, ','.join(self.ops) if self.ops else '.'),
                    oracle=skl_oracle(self.cmp, list(self.ops), list(self.exp), dict(self.info)))


# ------------------------------------------------------------------ streams
def gen_build(rng, n):
    """inserts in random order, dumps in the middle and at the end, full forward and backward scans"""
    cases = []
    for i in range(n):
        cmp_name = rng.choice(CMPS)
        j = rng.below(10)
        size = rng.range(1, 40) if j < 6 else (rng.range(41, 120) if j < 9 else rng.range(121, 300))
        if i % 50 == 49:
            size = 300
        ctx = Ctx(rng, size)
        if size > 60:
            ctx.randkeys = max(ctx.randkeys, 15)
            ctx.seqspace = max(ctx.seqspace, size)
        seen, ents = set(), []
        for _ in range(size * 4):
            if len(ents) >= size:
                break
            e = ctx.entry(rng)
            ik = (pb(e[0]), e[1], e[2])
            if ik in seen:
                continue
            seen.add(ik)
            ents.append(e)
        ents = shuffle(rng, ents)
        cnt = len(ents)
        st = Stream(cmp_name)
        dumps = {rng.below(cnt + 1) for _ in range(rng.range(1, 3))}
        if rng.chance(1, 6):
            dumps.add(0)
        for p, e in enumerate(ents):
            if p in dumps:
                st.emit('D')
            assert st.emit(ins_op(e)) == 'ok'
        st.emit('D')
        scan_at = len(st.ops)
        for o in ['F'] + ['N'] * (cnt + 1) + ['L'] + ['P'] * (cnt + 1):
            st.emit(o)
        # the stated property, computed the plain way (sorted(), not the reference's own insertion): the reference must meet it
        full = sort_run(cmp_name, [(pb(e[0]), e[1], e[2], pb(e[3])) for e in ents])
        fwd = [show_entry(e) for e in full]
        assert st.exp[scan_at:] == fwd + ['-', 'skip'] + fwd[::-1] + ['-', 'skip']
        cases.append(st.case('sk-build'))
    return cases


def gen_walk(rng, n):
    """random iterator walks interleaved with inserts while the iterator is positioned"""
    cases = []
    for i in range(n):
        cmp_name = rng.choice(CMPS)
        pre = rng.choice([0, 0, 1, 2, 3, 5, 10, 20, 40, 80])
        ctx = Ctx(rng, pre + 10)
        st = Stream(cmp_name)
        ref = st.ref
        if rng.chance(1, 8):
            st.emit(rng.choice(['N', 'P', 'F', 'L', 'D']))           # on the fresh iterator / empty memtable
        for _ in range(pre):
            st.emit(ins_op(ctx.entry(rng)))

        def positioning():
            j = rng.below(6)
            if j == 0:
                return 'F'
            if j == 1:
                return 'L'
            return 'S:%s:%d' % pick_probe(rng, ctx, ref)
        d = rng.choice(['N', 'P'])
        for _ in range(rng.choice([5, 10, 20, 40, 40, 80, 120, 160])):
            j = rng.below(100)
            if j < 48:
                if rng.chance(2, 5):
                    d = 'N' if d == 'P' else 'P'
                o = d
                if ref.cur is None and rng.chance(9, 10):
                    o = positioning()
            elif j < 54:
                o = rng.choice(['F', 'L'])
            elif j < 70:
                o = 'S:%s:%d' % pick_probe(rng, ctx, ref)
            elif j < 91:
                e = ctx.entry(rng)
                cur = ref.cur
                if cur is not None and key_arg_of(cur[0]) is not None and rng.chance(1, 2):
                    # a new immediate neighbour of the current entry: same user key, seq +-1, or same seq another kind
                    k = rng.below(5)
                    q, t = cur[1], e[2]
                    if k < 2:
                        q = min(q + 1, MAXSEQ)
                    elif k < 4:
                        q = max(q - 1, 0)
                    else:
                        t = (cur[2] + rng.choice([1, 255])) % 256
                    e = (key_arg_of(cur[0]), q, t, e[3])
                o = ins_op(e)
            elif j < 94:
                o = 'D'
            elif j < 97:
                o = 'g:%s:%d' % pick_probe(rng, ctx, ref)
            else:
                o = pick_contains(rng, ctx, ref)
            st.emit(o)
            if o[0] == 'i' and ref.cur is not None and rng.chance(2, 3):
                st.emit(rng.choice(['N', 'P']))                      # sees the new neighbour
        cases.append(st.case('sk-walk'))
    return cases


def gen_get(rng, n):
    """ldb_memtable_get at / above / below versions, absent keys, tombstones, kinds >= 2; contains probes"""
    cases = []
    for i in range(n):
        cmp_name = rng.choice(CMPS)
        pre = rng.choice([0, 1, 2, 3, 5, 8, 13, 20, 30, 60])
        ctx = Ctx(rng, pre + 5, badkind=(i % 3 == 0))
        if rng.chance(1, 2):
            ctx.seqspace = min(ctx.seqspace, 12)        # (ukey, seq) pairs shared by several kinds
        st = Stream(cmp_name)
        for _ in range(pre):
            st.emit(ins_op(ctx.entry(rng)))
        for _ in range(rng.choice([5, 10, 20, 40, 80])):
            j = rng.below(20)
            if j < 14:
                st.emit('g:%s:%d' % pick_probe(rng, ctx, st.ref))
            elif j < 18:
                st.emit(pick_contains(rng, ctx, st.ref))
            else:
                st.emit(ins_op(ctx.entry(rng)))
        if ctx.badkind and st.ref.es:
            # every entry's own (ukey, seq): the entry found is the one of the largest kind <= 1 ... or a later version
            for e in shuffle(rng, st.ref.es)[:12]:
                ka = key_arg_of(e[0])
                if ka is not None:
                    st.emit('g:%s:%d' % (ka, e[1]))
        cases.append(st.case('sk-get'))
    return cases


def gen_dup(rng, n):
    """duplicate internal keys: `dup`, nothing inserted, the structure and the ordinals as without them"""
    cases = []
    for i in range(n):
        cmp_name = rng.choice(CMPS)
        size = rng.choice([2, 5, 10, 20, 40, 80])
        ctx = Ctx(rng, size)
        st = Stream(cmp_name)
        done = []
        for _ in range(size):
            if done and rng.chance(3, 10):
                e = rng.choice(done)
                if rng.chance(1, 2):
                    e = (e[0], e[1], e[2], ctx.val(rng))    # another value under the same internal key
                r = st.emit(ins_op(e))
                assert r == 'dup'
                if rng.chance(1, 3):
                    st.emit('D')
                continue
            e = ctx.entry(rng)
            if st.emit(ins_op(e)) == 'ok':
                done.append(e)
            if rng.chance(1, 10):
                st.emit('D')
        st.emit('D')
        for o in ['F'] + ['N'] * len(done):
            st.emit(o)
        # the same stream without the duplicates gives the same dumps and the same scan
        ok_ops = [o for o, r in zip(st.ops, st.exp) if r != 'dup']
        e2, _ = run_ref(cmp_name, ok_ops)
        assert e2 == [r for r in st.exp if r != 'dup']
        cases.append(st.case('sk-dup'))
    return cases


RAND_SEEDS = [0, 1, 2147483647, 2147483648, 4294967295, 3735928559, 2, 2147483646, 16807]


def gen_rand(rng, n):
    cases = []
    for i in range(n):
        seed = RAND_SEEDS[i % (len(RAND_SEEDS) + 3)] if i % (len(RAND_SEEDS) + 3) < len(RAND_SEEDS) else rng.below(1 << 32)
        cnt = rng.choice([1, 2, 12, 13, 100, 1000, 4096, rng.range(1, 4096)])
        want = rand_heights(seed, cnt)

        def oracle(resp, want=want):
            try:
                got = [int(x) for x in resp.split(',')]
            except ValueError:
                return 'unparsable heights'
            if any(h < 1 or h > MAX_HEIGHT for h in got):
                return 'height outside 1..12'
            if got != want:
                k = next((j for j, (a, b) in enumerate(zip(got, want)) if a != b), min(len(got), len(want)))
                return 'heights differ from the Park-Miller / one-in-4 sequence at index %d' % k
            return None
        cases.append(Case('sk-rand', 'rndh %d %d' % (seed, cnt), oracle=oracle))
    return cases


def varint32(v):
    out = bytearray()
    while v >= 128:
        out.append((v & 127) | 128)
        v >>= 7
    out.append(v)
    return bytes(out)


def encode_entry(k, q, t, v):
    tag = ((q << 8) | t).to_bytes(8, 'little')
    return varint32(len(k) + 8) + k + tag + varint32(len(v)) + v, k + tag


def gen_enc(rng, n):
    cases = []
    for i in range(n):
        j = rng.below(12)
        if j < 4:
            kn = rng.choice([119, 120, 121])             # len + 8 = 127 / 128 / 129
        elif j < 5:
            kn = rng.choice([16375, 16376, 16377])       # len + 8 = 16383 / 16384 / 16385
        elif j < 7:
            kn = 0
        elif j < 10:
            kn = rng.range(1, 40)
        else:
            kn = rng.range(100, 140)
        if kn == 0:
            ka = '-'
        elif kn <= 40 or (kn < 200 and rng.chance(1, 2)):
            ka = rng.bytes(kn).hex()
        else:
            ka = '@%d~%d' % (rng.below(100000), kn)
        j = rng.below(12)
        if j < 2:
            vn = 0
        elif j < 6:
            vn = rng.choice([127, 128, 16383, 16384])
        elif j < 10:
            vn = rng.range(1, 45)
        else:
            vn = rng.choice([126, 129, 255, 256, 300, 16385, 20000])
        if vn == 0:
            va = '-'
        elif vn <= 45:
            va = rng.bytes(vn).hex()
        else:
            va = '@%d~%d' % (rng.below(100000), vn)
        t = rng.choice([0, 1, 0, 1, 2, 127, 128, 255, rng.below(256)])
        q = rng.choice([0, 1, 255, 256, (1 << 32) - 1, 1 << 32, MAXSEQ - 1, MAXSEQ, rng.below(1 << 56), rng.below(1000)])
        raw, ik = encode_entry(pb(ka), q, t, pb(va))
        want = '%s %s %s' % (proto.show_bytes(raw), proto.show_bytes(ik), proto.show_bytes(pb(va)))

        def oracle(resp, want=want):
            return None if resp == want else 'entry encoding: expected %s got %s' % (want[:200], resp[:200])
        cases.append(Case('sk-enc', 'mtenc %s %d %d %s' % (ka, q, t, va), oracle=oracle))
    return cases


BAD_OPS = ['i:6:1:1:aa', 'i:6g:1:1:aa', 'i:61:1:1:a', 'i:61:1:1:zz', 'i:61:1:1', 'i:61:1:1:aa:bb', 'i:61:1:256:aa', 'i:61:1:1000:aa',
           'i:61:72057594037927936:1:aa', 'i:61:-1:1:aa', 'i:61:x:1:aa', 'i:61:1:x:aa', 'i:61:1:+1:aa', 'i:61', 'i',
           'c:61:1', 'c:61:1:256', 'c:61:1:1:aa', 'c:6:1:1', 'c:61:72057594037927936:0',
           'g:61', 'g:61:1:1', 'g:61:72057594037927936', 'g:6:1', 'g:61:x',
           'S:61', 'S:61:1:1', 'S:61:72057594037927936', 'S:6x:1', 'S',
           'X', 'f', 'FF', 'D:1', 'N:1', 'GE:61', 'x:61:1', '', '@1~', 'i:@1:1:1:aa', 'i:@x~3:1:1:aa']
BAD_LINES = ['skl zz F', 'skl BW F', 'skl bw', 'skl', 'skl bw F N', 'skl bw i:61:1:1:aa,', 'skl bw ,F', 'skl bw F,,N',
             'rndh x 3', 'rndh 4294967296 3', 'rndh 1 0', 'rndh 1 4097', 'rndh 1', 'rndh 1 x', 'rndh -1 3', 'rndh 1 2 3', 'rndh',
             'mtenc 61 5 256 aa', 'mtenc 61 72057594037927936 1 aa', 'mtenc 6 5 1 aa', 'mtenc 61 5 1', 'mtenc 61 x 1 aa',
             'mtenc 61 5 x aa', 'mtenc 61 5 1 a', 'mtenc 61 5 1 aa bb', 'mtenc']


def gen_malformed(rng, n):
    """syntactically broken requests: both sides must answer bad-op (every op is checked before the first one runs)"""
    cases = []

    def oracle(resp):
        return None if resp == 'bad-op' else 'expected bad-op'
    for i in range(n):
        j = i % 3
        if j == 0:
            req = BAD_LINES[(i // 3) % len(BAD_LINES)]
        else:
            # one broken op somewhere in an otherwise valid stream
            ctx = Ctx(rng, 10)
            ops = []
            for _ in range(rng.below(8)):
                ops.append(rng.choice([ins_op(ctx.entry(rng)), 'F', 'N', 'L', 'P', 'D', 'g:61:1', 'c:61:1:1', 'S:61:5']))
            ops.insert(rng.below(len(ops) + 1), BAD_OPS[(i // 3 * 2 + j) % len(BAD_OPS)])
            if ops == ['']:
                ops = ['', 'F']
            req = 'skl %s %s' % (rng.choice(CMPS) if rng.chance(9, 10) else 'xx', ','.join(ops))
        cases.append(Case('sk-malformed', req, oracle=oracle))
    return cases


def gen_skiplist(rng, n):
    """the slice's whole stream"""
    nb = n * 25 // 100
    nw = n * 30 // 100
    ng = n * 20 // 100
    nd = n * 8 // 100
    nr = n * 5 // 100
    ne = n * 8 // 100
    return (gen_build(rng.fork('build'), nb) + gen_walk(rng.fork('walk'), nw) + gen_get(rng.fork('get'), ng)
            + gen_dup(rng.fork('dup'), nd) + gen_rand(rng.fork('rand'), nr) + gen_enc(rng.fork('enc'), ne)
            + gen_malformed(rng.fork('bad'), max(n - nb - nw - ng - nd - nr - ne, 0)))
