#!/usr/bin/env python3
"""Differential run of the iterator-stack slice (merger.c, db_iter.c): C harness (ASan/UBSan, NDEBUG)
vs. Lean model, plus the property oracles of gens_iterstack.py.
usage: iterstack_quick.py [seed [ncases]]   (lake build first)"""
import os, sys, time
from collections import Counter
HERE = os.path.dirname(os.path.abspath(__file__))
sys.path.insert(0, os.path.join(os.path.dirname(HERE), 'tools'))
sys.path.insert(0, HERE)
import vlib, gens_iterstack
from vlib import Rng, Check
from common import run_cases


def main():
    seed = int(sys.argv[1]) if len(sys.argv) > 1 else 1
    n = int(sys.argv[2]) if len(sys.argv) > 2 else 3200
    cases = gens_iterstack.gen_iterstack(Rng(seed), n)
    unit = vlib.build_harness('unit', 'asan', exclude=['util/crc32c.c'])
    chk = Check('ITERSTACK', 'quick')
    t = time.time()
    c_out, m_out = run_cases(chk, cases, unit)
    bad = [o for o in chk.obligations if not o[1]]
    for o in bad:
        print('DISAGREEMENT', o)
    for v in chk.violations[:10]:
        print('ORACLE VIOLATION', v[0][:600], v[1].get('request', '')[:600])
    nstates = sum(r.count(';') + 1 for r in c_out if r)
    print('seed %d: %d cases %s; disagreements %d; oracle violations %d; C faults %d; model faults %d; bad-op %d; toobig %d; '
          'states %d (valid %d, skip %d, non-ok status %d); %.1fs'
          % (seed, len(cases), dict(Counter(c.suite for c in cases)), len(bad), len(chk.violations),
             sum(1 for r in c_out if r and r.startswith('fault')), sum(1 for r in m_out if r and 'fault' in r),
             sum(1 for r in c_out if r == 'bad-op'), sum(1 for r in c_out if r == 'toobig'), nstates,
             sum(r.count('1,') for r in c_out if r), sum(r.count('skip') for r in c_out if r),
             sum(1 for r in c_out if r and ('corrupt' in r or 'ioerror' in r)), time.time() - t))
    return 1 if bad or chk.violations else 0


if __name__ == '__main__':
    sys.exit(main())
