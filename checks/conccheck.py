"""C08 / C09 (and the reader part of C04): real multi-threaded runs under the deterministic scheduler,
judged by the linearizability oracle and (when present) by the Lean acceptor of the Conc model."""
import concurrent.futures as cf, json, os, shutil, subprocess
import vlib, conc_oracle
from common import lean_stage
from vlib import Check, Rng

EXCL = ['db_impl.c', 'util/port.c']


def conc_bin():
    return vlib.build_harness('conc', 'plain', exclude=EXCL, extra_src=['sched_port.c'])


def acceptor_path():
    return os.path.join(vlib.LEAN, '.lake', 'build', 'bin', 'conccheck')


def one_run(args):
    cbin, params = args
    d = vlib.scratch_dir('conc')
    try:
        cmd = [cbin, os.path.join(d, 'db')] + [str(x) for x in params]
        try:
            p = subprocess.run(cmd, stdout=subprocess.PIPE, stderr=subprocess.PIPE, text=True, timeout=300)
            out, rc = p.stdout, p.returncode
        except subprocess.TimeoutExpired as e:
            out = (e.stdout or b'').decode(errors='replace') if isinstance(e.stdout, bytes) else (e.stdout or '')
            rc = -999
        fault_run = bool(int(params[7]) & 64)
        problems, stats = conc_oracle.check(out, fault_run)
        if fault_run:
            # after the injected log-write failure writes fail by design: only liveness is judged on these runs
            problems = [p for p in problems if p.startswith(('VIOLATION[deadlock]', 'VIOLATION[stuck]'))]
            stats = dict(stats, fault_runs=1)
        if rc not in (0, 3, 4):
            problems.append('VIOLATION[fault] the process crashed or timed out (rc=%d)' % rc)
        acc = []
        if os.path.exists(acceptor_path()):
            q = subprocess.run([acceptor_path()], input=out, stdout=subprocess.PIPE, stderr=subprocess.PIPE, text=True, timeout=300)
            acc = [l for l in q.stdout.split('\n') if l.startswith(('MISMATCH', 'VIOLATION'))]
            for l in q.stdout.split('\n'):
                if l.startswith('done '):
                    for kv in l.split()[1:]:
                        k, v = kv.split('=')
                        stats['model_' + k] = int(v)
        ncs = out.count('\ncs ')
        stats['critical_sections'] = ncs
        for l in out.split('\n'):
            if l.startswith('done '):
                for kv in l.split()[1:]:
                    k, v = kv.split('=')
                    stats[k] = int(v)
        return {'params': params, 'problems': problems + acc, 'stats': stats, 'transcript': out if (problems or acc) else None}
    finally:
        shutil.rmtree(d, ignore_errors=True)


def run(pid, tier, theorems, imports, targets, own_tags):
    chk = Check(pid, tier)
    lean_stage(chk, theorems, imports, list(targets) + ['conccheck'])
    conc_part(chk, tier, Rng(chk.seed).fork(pid), own_tags)
    return chk.finish()


def conc_part(chk, tier, rng, own_tags, scale=1.0):
    pid = chk.pid
    cbin = conc_bin()
    n = int((60 if tier == 'quick' else 3000) * scale)
    jobs = []
    cp = os.path.join(vlib.ROOT, 'corpus', 'conc', 'args.txt')
    if os.path.exists(cp):
        for l in open(cp):
            l = l.strip()
            if l and not l.startswith('#'):
                jobs.append((cbin, [int(x) for x in l.split()]))
    for i in range(n):
        nw = rng.range(2, 4 if tier == 'quick' else 8)
        nr = rng.range(0, 3)
        nops = rng.range(6, 30)
        valsize = rng.choice([64, 2000, 9000, 30000])
        flags = rng.choice([0, 1, 5, 13, 29, 31, 12, 28])
        mode = rng.below(2)
        jobs.append((cbin, [rng.below(1 << 30), rng.below(1 << 30), mode, nw, nr, nops, valsize, flags]))
    # small scenarios with a pre-filled memtable so that a switch and a flush fall inside the window
    for i in range(n // 3):
        jobs.append((cbin, [rng.below(1 << 30), rng.below(1 << 30), rng.below(2), rng.range(2, 3), rng.range(1, 2), rng.range(2, 5), 40000, rng.choice([13, 29, 31])]))
    # group commit at its size limit: several writers queued at once, small batches mixed with ones above the 128 KiB allowance
    for i in range(int((40 if tier == 'quick' else 1500) * scale)):
        jobs.append((cbin, [rng.below(1 << 30), rng.below(1 << 30), rng.below(2), rng.range(4, 6), rng.range(0, 1), rng.range(6, 14), 300, rng.choice([32, 33, 36, 44])]))
    # several threads asleep on background_work_finished at once: a stalled head writer (64 KiB write buffer, 40 KB values) and
    # the manual-compaction thread, later close
    for i in range(int((60 if tier == 'quick' else 1500) * scale)):
        jobs.append((cbin, [rng.below(1 << 30), rng.below(1 << 30), rng.below(2), rng.range(3, 5), rng.range(0, 1), rng.range(6, 14), 40000, rng.choice([2, 3, 15, 31])]))
    # a write(2) to the log fails: background error, every later write fails -- and every waiter must still be woken
    if 'deadlock' in own_tags or 'stuck' in own_tags:
        for i in range(int((60 if tier == 'quick' else 1500) * scale)):
            jobs.append((cbin, [rng.below(1 << 30), rng.below(1 << 30), rng.below(2), rng.range(2, 4), rng.range(0, 1), rng.range(6, 14), rng.choice([40000, 30000, 2000]), 64 + rng.choice([0, 1, 5, 12])]))
    # many short runs of batch writers against snapshot readers: the window between sequence publication and memtable insert
    for i in range(int((240 if tier == 'quick' else 6000) * scale)):
        jobs.append((cbin, [rng.below(1 << 30), rng.below(1 << 30), rng.below(2), 2, 3, 8, 200, 13]))
    results = []
    with cf.ThreadPoolExecutor(vlib.NPROC) as ex:
        for r in ex.map(one_run, jobs):
            results.append(r)
    totals = {}
    mism = []
    nviol = 0
    for r in results:
        for k, v in r['stats'].items():
            totals[k] = totals.get(k, 0) + v
        st = r['stats']
        chk.note_case(tuple(r['params']), st.get('overlapping_reads', 0) > 0 or st.get('switches', 0) > 20)
        for p in r['problems']:
            tag = p.split(']')[0].split('[')[-1] if '[' in p else 'other'
            if p.startswith('VIOLATION'):
                if tag in own_tags or tag in ('fault',):
                    if nviol < 3:
                        chk.violation('concurrent run: %s' % p[:500], {'conc_args': r['params'], 'problem': p, 'replay_cmd': '<conc binary built by ./check> <dbdir> ' + ' '.join(str(x) for x in r['params'])})
                    nviol += 1
            else:
                mism.append((r, p))
    chk.extra['schedule_totals'] = totals
    chk.extra['traces_validated_against_impl'] = len(results)
    if results:
        chk.sample({'suite': 'conc-runs', 'params(workload seed, schedule seed, mode, writers, readers, ops, valsize, flags)': results[0]['params'], 'stats': results[0]['stats']})
    chk.rules.append('the real database (current tree, own port layer = deterministic scheduler with a scheduling point at every mutex/condvar/thread call and at the slowdown sleep) run with 2..8 '
                     'writer threads (single-writer keys, versioned values, multi-key batches, sync mix), readers (get, snapshot reads of a whole batch, full scans), an optional compaction thread, '
                     'then close; schedules from a seeded PRNG (uniform or PCT-style priorities); oracle: per-key register linearizability with real-time order, monotonic reads, snapshot/scan = '
                     'one point in time with whole batches, final state, every call returns (deadlock = unfinished threads and none runnable; step bound for livelock); every critical section of '
                     'the DB mutex is replayed on the Lean Conc model when the acceptor is built; non-trivial = run with reads overlapping writes or > 20 context switches')
    detail = '%d runs; totals %s' % (len(results), totals)
    if mism:
        detail += '; %d model/implementation mismatches, first: %s (params %s)' % (len(mism), mism[0][1][:300], mism[0][0]['params'])
        with open(os.path.join(vlib.ROOT, 'replays', '%s-conc-mismatch.json' % pid), 'w') as f:
            json.dump({'params': mism[0][0]['params'], 'problems': mism[0][0]['problems'][:10]}, f, indent=1)
    chk.oblige('trace-validation:conc-runs', not mism, detail)
    chk.assumptions += ['one thread runs at a time (sequentially consistent interleavings at port-call granularity); preemption inside a critical section or inside a lock-free phase is not explored: '
                        'that those phases touch only what the model says is the discipline of C10',
                        'no spurious condition-variable wake-ups (the code re-checks its predicates in loops)']


def replay(pid, path):
    rp = json.load(open(path))
    if 'conc_args' in rp:
        r = one_run((conc_bin(), rp['conc_args']))
        print(r['stats'])
        for p in r['problems'][:10]:
            print(p)
    return 0
