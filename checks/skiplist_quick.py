#!/usr/bin/env python3
"""Differential run of the memtable slice (skiplist.c, memtable.c, util/random.c): C harness (ASan/UBSan, NDEBUG)
vs. Lean model, plus the property oracles of gens_skiplist.py.
usage: skiplist_quick.py [seed [ncases]]   (lake build first)"""
import os, sys, time
from collections import Counter
HERE = os.path.dirname(os.path.abspath(__file__))
sys.path.insert(0, os.path.join(os.path.dirname(HERE), 'tools'))
sys.path.insert(0, HERE)
import vlib, gens_skiplist
from vlib import Rng, Check
from common import run_cases


def main():
    seed = int(sys.argv[1]) if len(sys.argv) > 1 else 1
    n = int(sys.argv[2]) if len(sys.argv) > 2 else 2000
    t = time.time()
    cases = gens_skiplist.gen_skiplist(Rng(seed), n)
    tgen = time.time() - t
    unit = vlib.build_harness('unit', 'asan', exclude=['util/crc32c.c'])
    if os.environ.get('SKL_TIMEOUT'):
        # mutation runs (skiplist_mutants.py): a mutant may loop forever; the C side then runs in small chunks with a
        # short timeout (a request that hangs is answered `fault: TIMEOUT` and costs that many seconds, not vlib's 900)
        tmo, plain = int(os.environ['SKL_TIMEOUT']), vlib.serve_parallel

        def serve_parallel(binary, lines, env=None, chunk=None, timeout=900):
            if binary == unit:
                return plain(binary, lines, env, 4, tmo)
            return plain(binary, lines, env, chunk, timeout)
        vlib.serve_parallel = serve_parallel
    chk = Check('SKIPLIST', 'quick')
    t = time.time()
    c_out, m_out = run_cases(chk, cases, unit)
    bad = [o for o in chk.obligations if not o[1]]
    for o in bad:
        print('DISAGREEMENT', o[0], o[2][:1500])
    for v in chk.violations[:10]:
        print('ORACLE VIOLATION', v[0][:600], v[1].get('request', '')[:600])
    suites = Counter(c.suite for c in cases)
    ndis = Counter(c.suite for c, a, b in zip(cases, c_out, m_out) if a != b)
    nvio = Counter(v[1].get('suite') for v in chk.violations)
    distinct = {}
    for c, r in zip(cases, c_out):
        distinct.setdefault(c.suite, set()).add(r)
    nops = sum(c.req.count(',') + 1 for c in cases if c.req.startswith('skl '))
    for s in sorted(suites):
        print('  %-13s cases %5d  distinct responses %5d  disagreements %4d  oracle violations %4d'
              % (s, suites[s], len(distinct[s]), ndis[s], nvio[s]))
    print('seed %d: %d cases %s; disagreements %d (in %d suites); oracle violations %d; C faults %d (timeouts %d); model faults %d; bad-op %d; '
          'distinct responses %d; skl ops %d (ok %d, dup %d, skip %d, dumps %d); gen %.1fs run %.1fs'
          % (seed, len(cases), dict(suites), sum(ndis.values()), len(bad), len(chk.violations),
             sum(1 for r in c_out if r and r.startswith('fault')), sum(1 for r in c_out if r and r.startswith('fault: TIMEOUT')), sum(1 for r in m_out if r and 'fault' in r),
             sum(1 for r in c_out if r == 'bad-op'), len(set(c_out)), nops,
             sum(r.count('ok') for r in c_out if r), sum(r.count('dup') for r in c_out if r),
             sum(r.count('skip') for r in c_out if r), sum(r.count('D') for r in c_out if r and not r.startswith('fault')),
             tgen, time.time() - t))
    return 1 if bad or chk.violations else 0


if __name__ == '__main__':
    sys.exit(main())
