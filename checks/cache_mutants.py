#!/usr/bin/env python3
"""mutation sanity check of the LRU-cache slice: apply one seeded bug to src/util/cache.c in a scratch copy
of /repo and run the differential check (cache_quick.py, seed 1, 1500 cases) against it.  For each mutant:
detected by (a) a model disagreement, (b) an oracle violation, (c) a sanitizer fault / hang; the counts of (a) and (b)
are over the requests that did not fault.
usage: cache_mutants.py [mutant numbers]"""
import os, re, shutil, subprocess, sys
W = os.path.dirname(os.path.dirname(os.path.abspath(__file__)))
SCRATCH = '/tmp/cache-gens-scratch'
F = 'src/util/cache.c'
MUTS = [
 ('finish: usage not decreased', F,
  "    lru->usage -= e->charge;\n\n    lru_shard_unref(lru, e);", "    lru_shard_unref(lru, e);"),
 ('insert: evict from the newest end', F,
  "    lru_handle_t *old = lru->list.next;\n    ldb_slice_t old_key", "    lru_handle_t *old = lru->list.prev;\n    ldb_slice_t old_key"),
 ('unref: entry not moved to the LRU list', F,
  "  } else if (e->in_cache && e->refs == 1) {\n    /* No longer in use; move to lru->list. */\n    lru_shard_remove(e);\n    lru_shard_append(&lru->list, e);\n  }",
  "  }"),
 ('insert: replaced entry not finished', F,
  "    lru_shard_finish(lru, lru_table_insert(&lru->table, e));", "    lru_table_insert(&lru->table, e);"),
 ('insert: no reference for the cache (refs++ dropped)', F,
  "    e->refs++; /* For the cache's reference. */\n", ""),
 ('finish: no unref', F,
  "    lru->usage -= e->charge;\n\n    lru_shard_unref(lru, e);", "    lru->usage -= e->charge;"),
 ('insert: capacity 0 caches too', F,
  "  if (lru->capacity > 0) {", "  if (1) {"),
 ('insert: evict while usage >= capacity', F,
  "  while (lru->usage > lru->capacity && lru->list.next != &lru->list) {", "  while (lru->usage >= lru->capacity && lru->list.next != &lru->list) {"),
 ('create: per-shard capacity rounded down', F,
  "  size_t per_shard = (capacity + LDB_SHARDS - 1) / LDB_SHARDS;", "  size_t per_shard = capacity / LDB_SHARDS;"),
 ('ref: entry stays on the LRU list', F,
  "  if (e->refs == 1 && e->in_cache) { /* If on lru->list, move to lru->in_use. */\n    lru_shard_remove(e);\n    lru_shard_append(&lru->in_use, e);\n  }\n", ""),
 ('table insert: resize when elems > 2*length', F,
  "    if (tbl->elems > tbl->length) {", "    if (tbl->elems > 2 * tbl->length) {"),
 ('table insert: replace truncates the chain', F,
  "  h->next_hash = (old == NULL ? NULL : old->next_hash);", "  h->next_hash = NULL;"),
 ('table remove: elems not decremented', F,
  "    *ptr = result->next_hash;\n    --tbl->elems;", "    *ptr = result->next_hash;"),
 ('prune: only the oldest entry', F,
  "  while (lru->list.next != &lru->list) {\n    lru_handle_t *e = lru->list.next;", "  if (lru->list.next != &lru->list) {\n    lru_handle_t *e = lru->list.next;"),
 ('id: last_id++', F,
  "  id = ++lru->last_id;", "  id = lru->last_id++;"),
 ('lookup: no reference taken', F,
  "  if (e != NULL)\n    lru_shard_ref(lru, e);\n\n  ldb_mutex_unlock(&lru->mutex);\n\n  return e;", "  ldb_mutex_unlock(&lru->mutex);\n\n  return e;"),
 ('table find: hash not compared', F,
  "  while (*ptr != NULL && ((*ptr)->hash != hash || !lru_handle_equal(*ptr, key)))", "  while (*ptr != NULL && (!lru_handle_equal(*ptr, key)))"),
 ('handle_equal: prefix match', F,
  "  if (x->key_length != y->size)\n    return 0;\n\n  return memcmp", "  if (x->key_length < y->size)\n    return 0;\n\n  return memcmp"),
 ('shard: 3 bits of the hash', F,
  "  return hash >> (32 - LDB_SHARD_BITS);", "  return hash >> (32 - LDB_SHARD_BITS + 1);"),
 ('resize: nodes rehashed into the old length', F,
  "      ptr = &new_list[hash & (new_length - 1)];", "      ptr = &new_list[hash & ((tbl->length ? tbl->length : new_length) - 1)];"),
 ('erase: entry stays in the table (lookup instead of remove)', F,
  "  lru_shard_finish(lru, lru_table_remove(&lru->table, key, hash));\n  ldb_mutex_unlock(&lru->mutex);",
  "  { lru_handle_t *x = lru_table_lookup(&lru->table, key, hash); if (x != NULL && x->in_cache) lru_shard_finish(lru, x); }\n  ldb_mutex_unlock(&lru->mutex);"),
 ('usage: shard 15 left out of the total', F,
  "  for (i = 0; i < LDB_SHARDS; i++)\n    total += lru_shard_usage(&lru->shard[i]);", "  for (i = 0; i < LDB_SHARDS - 1; i++)\n    total += lru_shard_usage(&lru->shard[i]);"),
]


def main():
    which = [int(x) for x in sys.argv[1:]] or range(len(MUTS))
    os.makedirs(SCRATCH, exist_ok=True)
    rows = []
    for i in which:
        name, rel, old, new = MUTS[i]
        d = os.path.join(SCRATCH, 'mut%d' % i)
        bdir = os.path.join(W, '.cache', 'build')
        before = set(os.listdir(bdir)) if os.path.isdir(bdir) else set()
        shutil.rmtree(d, ignore_errors=True)
        os.makedirs(d)
        try:
            shutil.copytree('/repo/src', d + '/src')
            shutil.copytree('/repo/include', d + '/include')
            p = os.path.join(d, rel)
            s = open(p).read()
            if s.count(old) != 1:
                print('MUT %2d %s: pattern occurs %d times' % (i, name, s.count(old)))
                continue
            open(p, 'w').write(s.replace(old, new))
            env = dict(os.environ, VERIF_REPO=d)
            env.setdefault('VERIF_JOBS', '4')
            env.setdefault('CACHE_ISOLATE', '3')      # requests fed one at a time, 3 s each: a hang / crash hits one request
            r = subprocess.run(['python3', W + '/checks/cache_quick.py', '1', '1500'], env=env, stdout=subprocess.PIPE, stderr=subprocess.STDOUT, text=True)
            last = [l for l in r.stdout.split('\n') if l.startswith('seed')]
            summ = last[0] if last else r.stdout[-400:]
            m = re.search(r'disagreements (\d+) \(suites \d+\); oracle violations (\d+); C faults (\d+) \(of the requests that did not fault: disagreements (\d+), oracle violations (\d+)\)', summ)
            if m:
                ta, tb, c, a, b = (int(x) for x in m.groups())
                how = '+'.join(t for t, v in (('model', a), ('oracle', b), ('sanitizer', c)) if v) or '-'
                first = [l for l in r.stdout.split('\n') if l.startswith('ORACLE VIOLATION') and 'implementation faulted' not in l] or \
                    [l for l in r.stdout.split('\n') if l.startswith('ORACLE VIOLATION')]
                why = re.sub(r'^ORACLE VIOLATION ', '', first[0])[:110] if first else ''
                print('MUT %2d %-58s %-12s by %-22s disagreements %4d  oracle violations %4d  sanitizer/timeout faults %4d   %s'
                      % (i, name, 'DETECTED' if r.returncode else 'NOT DETECTED', how, a, b, c, why))
            else:
                print('MUT %2d %-58s ??? %s' % (i, name, summ[:300].replace('\n', ' | ')))
            sys.stdout.flush()
        finally:
            shutil.rmtree(d, ignore_errors=True)
            # the build of the mutated tree in the build cache goes too
            for e in (set(os.listdir(bdir)) - before if os.path.isdir(bdir) else ()):
                q = os.path.join(bdir, e)
                shutil.rmtree(q, ignore_errors=True) if os.path.isdir(q) else os.remove(q)
    return 0


if __name__ == '__main__':
    sys.exit(main())
