"""C07 — Iterators: trace validation of real histories against the Lsm model + theorems over the model."""
import wlcheck

PID = 'C07'
TAGS = set('iter,snapiter,liveiter'.split(','))
THEOREMS = []
IMPORTS = ['LcdbModel.Props.C07']
TARGETS = ['LcdbModel.Props.C07']


def run(tier):
    return wlcheck.run(PID, tier, TAGS, THEOREMS, IMPORTS, TARGETS)


def replay(path):
    return wlcheck.replay(PID, path)
