"""C07 — iterators give a consistent, ordered, complete view in both directions."""
import vlib, wlcheck, wl_run, gens_iterstack, gens_block
from common import Case, lean_stage, run_cases, load_corpus
from vlib import Check, Rng

PID = 'C07'
TAGS = set('iter,snapiter,liveiter'.split(','))
THEOREMS = [
    'Lcdb.C07x.merge_is_cursor', 'Lcdb.C07x.merge_no_fault', 'Lcdb.C07x.dbiter_is_map_cursor', 'Lcdb.C07x.dbiter_is_map_cursor_gen',
    'Lcdb.C07x.dbiter_forward_scan', 'Lcdb.C07x.dbiter_backward_scan', 'Lcdb.C07x.forward_eq_reverse_backward', 'Lcdb.C07x.iter_agrees_get',
    'Lcdb.C07x.seek_agrees_get', 'Lcdb.C07x.dbiter_over_merge', 'Lcdb.C07x.dbiter_over_db', 'Lcdb.C07x.dbiter_total', 'Lcdb.C07x.visibleMap_strictly_sorted',
    'Lcdb.blockIter_is_cursor', 'Lcdb.blockIter_seek_helpers', 'Lcdb.seek_helpers_spec',
]
IMPORTS = ['LcdbModel.Props.C07']
TARGETS = ['LcdbModel.Props.C07']


def run(tier):
    chk = Check(PID, tier)
    rng = Rng(chk.seed).fork(PID)
    lean_stage(chk, THEOREMS, IMPORTS, TARGETS + ['tracecheck'])
    unit = vlib.build_harness('unit', 'asan', exclude=['util/crc32c.c'])
    big = tier == 'thorough'
    cases = [Case('corpus', r) for r in load_corpus(PID)]
    cases += gens_iterstack.gen_iterstack(rng.fork('stack'), 1500 if not big else 40000)
    cases += gens_block.gen_block_valid(rng.fork('block'), 300 if not big else 8000)
    chk.rules.append('real merger.c and db_iter.c over real memtables as children (1..6 runs, many versions per user key spread over runs, tombstones above and below values, entries newer '
                     'than the iterator sequence, three comparators) and real block iterators, with op sequences that are random walks biased to direction changes at every position; '
                     'every op is compared with the Lean iterator models and with a Python sorted-dict cursor; distinct = distinct (suite, response)')
    run_cases(chk, cases, unit)
    n, nops = (20, 45) if not big else (400, 120)
    chk.rules.append(wlcheck.RULE)
    wl_run.run_histories(chk, n, nops, TAGS, 'histories')
    wl_run.run_histories(chk, max(6, n // 4), nops, TAGS, 'histories-casefold', family='casefold')
    chk.assumptions += ['two_level_iterator.c is exercised through whole tables and whole databases; its own model is part of the table slice']
    return chk.finish()


def replay(path):
    import json
    rp = json.load(open(path))
    if 'request' in rp:
        unit = vlib.build_harness('unit', 'asan', exclude=['util/crc32c.c'])
        print(vlib.serve(unit, [rp['request']], vlib.asan_env())[0])
        return 0
    return wlcheck.replay(PID, path)
