"""Forged MANIFESTs for harness/forge.c (C18 at database level): well-framed descriptors whose file metadata is semantically
arbitrary -- bounds inverted, equal, widened, narrowed; levels shuffled (overlapping files above level 0); one table named
twice; tables that do not exist; wrong sizes; odd sequence numbers and value types."""

TABLES = [  # (first key index, last key index, first seq, last seq) of the three real tables the harness builds
    (0, 9, 1, 10), (5, 14, 11, 20), (20, 29, 21, 30)]
MAXSEQ = (1 << 56) - 1


def hx(b):
    return b.hex() if b else '-'


def key(i):
    return b'k%02d' % i


def one_file(rng, shape=None):
    t = rng.below(3)
    lo, hi, s0, s1 = TABLES[t]
    level = rng.choice([0, 0, 0, 1, 1, 2, 3, 6])
    sk, ss, st, lk, ls, lt, delta, tbl = key(lo), s0, 1, key(hi), s1, 1, 0, t
    shape = shape or rng.choice(['faithful', 'faithful', 'inverted', 'inverted-samekey', 'equal', 'wide', 'narrow', 'emptykey', 'types', 'seqs',
                                 'size', 'missing', 'longkey'])
    if shape == 'inverted':
        sk, lk, ss, ls = lk, sk, ls, ss
    elif shape == 'inverted-samekey':
        k = key(rng.range(lo, hi)); sk = lk = k; ss, ls = rng.range(1, 20), rng.range(21, 40)     # (k, 30) sorts before (k, 5)
    elif shape == 'equal':
        k = key(rng.range(lo, hi)); sk = lk = k; ss = ls = rng.range(1, 40)
    elif shape == 'wide':
        sk, lk = b'', b'\xff\xff\xff'
    elif shape == 'narrow':
        a = rng.range(lo, hi); b = rng.range(a, hi); sk, lk = key(a), key(b)
    elif shape == 'emptykey':
        if rng.chance(1, 2): sk = b''
        else: lk = b''
    elif shape == 'types':
        st, lt = rng.choice([0, 1, 2, 255]), rng.choice([0, 1, 2, 255])
    elif shape == 'seqs':
        ss, ls = rng.choice([0, MAXSEQ, s1]), rng.choice([0, MAXSEQ, s0])
    elif shape == 'size':
        delta = rng.choice([-1, 1, -40, 100000, -100000])
    elif shape == 'missing':
        tbl = 9
    elif shape == 'longkey':
        lk = lk + b'\x00' * rng.range(1, 60)
    return '%d:%d:%s:%d:%d:%s:%d:%d:%d' % (level, tbl, hx(sk), ss, st, hx(lk), ls, lt, delta)


def gen_forge(rng, n):
    reqs = [
        # the three tables as they are (level 0): the baseline must simply work
        'forge ' + ','.join('0:%d:%s:%d:1:%s:%d:1:0' % (t, hx(key(lo)), s0, hx(key(hi)), s1) for t, (lo, hi, s0, s1) in enumerate(TABLES)),
        # F10: largest below smallest, same user key -- at level 0 and at level 1 under a level-2 file
        'forge 0:0:61:5:1:61:9:1:0',
        'forge 1:0:6b3033:5:1:6b3033:9:1:0,2:2:6b3230:21:1:6b3239:30:1:0',
    ]
    for _ in range(n):
        k = rng.range(1, 4)
        files = [one_file(rng) for _ in range(k)]
        if rng.chance(1, 6):
            files.append(files[0])                  # the same entry twice
        reqs.append('forge ' + ','.join(files))
    return reqs
