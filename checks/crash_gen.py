"""crash-point histories for C02/C03/C05 (journal on; crashscan at the end)"""
import proto
from wl_gen import Hist


def crash_opts(rng):
    return rng.choice([
        'wbuf=65536', 'wbuf=65536 reuse=1', 'wbuf=65536 comp=1 filter=10', 'wbuf=65536 paranoid=1', 'wbuf=65536 reuse=1 paranoid=1',
        'wbuf=131072 block=1024', 'wbuf=65536 cmp=rev', 'wbuf=65536 mmap=0 reuse=1',
    ])


def history(rng, dbdir, imgdir, nops, variants, follow, max_points, force_mode=None):
    opts = crash_opts(rng)
    h = Hist(rng, dbdir, opts, rng.choice([5, 14]))
    h.emit('journal on')
    mode = rng.below(4) if force_mode is None else force_mode
    if mode == 2:
        # background flushes / compactions overlap the following calls (log switches while a compaction is in flight)
        h.emit('nowait 1')
    elif mode == 3:
        # only MANIFEST syncs are slow: the writer keeps filling the write buffer and switches logs while the background
        # thread is inside ldb_versions_apply installing a flush or a compaction
        h.emit('nowait 2')
    h.open()
    for _ in range(nops):
        k = rng.below(20)
        if mode == 3 and k < 13:
            for _ in range(rng.range(6, 22)):
                h.val_seed += 1
                h.emit('put %s @%d~%d%s' % (proto.arg(h.key()), h.val_seed, rng.range(1500, 12000), ' sync' if rng.chance(1, 12) else ''))
        elif k < 13:
            # mixed sync / non-sync writes; values sized so that logs rotate and tables are built within the history
            r = rng.below(10)
            sync = ' sync' if rng.chance(1, 3) else ''
            if r < 6:
                h.emit('put %s %s%s' % (proto.arg(h.key()), h.val(), sync))
            elif r < 8:
                h.emit('del %s%s' % (proto.arg(h.key()), sync))
            else:
                ops = ','.join(('p:%s:%s' % (proto.arg(h.key()), h.val(rng.chance(1, 2)))) if rng.chance(3, 4) else ('d:%s' % proto.arg(h.key())) for _ in range(rng.range(2, 5)))
                h.emit('batch %s%s' % (ops, sync))
        elif k < 15:
            h.emit('flushmem')
        elif k < 17:
            h.emit('compact %d * *' % rng.below(3))
        elif k < 18:
            h.reopen()
        else:
            h.read_all(with_snaps=False, sample=3)
    h.emit('close')
    # number of journal events is unknown here; the harness takes a stride, so estimate ~9 events per op
    est = max(1, nops * 9)
    stride = max(1, est // max_points)
    h.emit('crashscan %d %s %s%s' % (stride, variants, imgdir, (' nested' if follow == 'nested' else ' follow') if follow else ''))
    return 'crash', opts, h.lines


def fault_family(rng, dbdir, imgdir):
    """one log, many small records crossing 32 KiB block boundaries, a failure on some call, more writes (F1 shape)"""
    opts = rng.choice(['wbuf=4194304', 'wbuf=1048576 reuse=1', 'wbuf=65536'])
    pre = ['open %s %s' % (dbdir, opts)]
    keys = [b'k%03d' % i for i in range(40)]
    seedv = rng.below(1 << 20)
    for i in range(rng.range(2, 8)):
        pre.append('put %s @%d~%d' % (proto.arg(rng.choice(keys)), seedv + i, rng.range(300, 3000)))
    body = []
    for i in range(rng.range(30, 70)):
        r = rng.below(12)
        if r < 9:
            body.append('put %s @%d~%d%s' % (proto.arg(rng.choice(keys)), seedv + 100 + i, rng.range(300, 3000), ' sync' if rng.chance(1, 5) else ''))
        elif r < 10:
            body.append('del %s' % proto.arg(rng.choice(keys)))
        elif r < 11:
            body.append('get %s' % proto.arg(rng.choice(keys)))
        elif rng.chance(1, 3):
            body += ['close', 'open %s %s' % (dbdir, opts)]
        else:
            body.append('flushmem')
    tail = ['ensureopen %s %s' % (dbdir, opts)]
    for i in range(rng.range(2, 10)):
        tail.append('put %s @%d~%d' % (proto.arg(rng.choice(keys)), seedv + 500 + i, rng.range(300, 3000)))
    for k in keys[:12]:
        tail.append('get %s' % proto.arg(k))
    return opts, pre, body, tail
