"""Request generators with direct property oracles for the file-selection mechanisms of src/version_set.c
(find_file, some_file_overlaps_range, ldb_version_get_overlapping_inputs, ldb_version_pick_level_for_memtable_output,
add_boundary_inputs, ldb_versions_setup_other_inputs via ldb_versions_compact_range / ldb_versions_pick_compaction,
ldb_compaction_is_trivial_move).  Protocol: lean/Driver/Policy.lean, harness/u_policy.h.

Two kinds of oracle, both computed here in Python and neither looking at the Lean model's answer:
  [prop]  the property itself, from definitions (set comprehensions over the files: "intersects", hull, closure)
  [ref]   a literal re-play of the C control flow (sim_*), which also yields the distribution statistics
          (level-0 restarts, boundary files added, expansion taken/refused, cut fired, ...)
Case.meta = {'tags': [...], 'valid': bool}; distribution(cases) aggregates the tags."""
import functools
from collections import namedtuple, Counter
import proto
from common import Case

CMPS = ('bw', 'rev', 'len')
MAXSEQ = (1 << 56) - 1
MAXPACKED = MAXSEQ * 256 + 1
NLEVELS = 7
F = namedtuple('F', 'num size sk sp lk lp')


def _c3(a, b):
    return -1 if a < b else (1 if a > b else 0)


def ucmp(c, a, b):
    if c == 'bw':
        return _c3(a, b)
    if c == 'rev':
        return _c3(b, a)
    if len(a) != len(b):
        return _c3(len(a), len(b))
    return _c3(a, b)


def icmp(c, a, b):
    """internal keys (user key, packed): user key ascending, packed descending"""
    r = ucmp(c, a[0], b[0])
    return r if r else _c3(b[1], a[1])


def small(f):
    return (f.sk, f.sp)


def large(f):
    return (f.lk, f.lp)


def usort(c, ks):
    return sorted(ks, key=functools.cmp_to_key(lambda a, b: ucmp(c, a, b)))


def umin(c, ks):
    return usort(c, ks)[0]


def umax(c, ks):
    return usort(c, ks)[-1]


def imax(c, ks):
    m = ks[0]
    for k in ks[1:]:
        if icmp(c, k, m) > 0:
            m = k
    return m


def inverted(c, f):
    return icmp(c, large(f), small(f)) < 0


# ------------------------------------------------------------------ formatting
def fmt_file(f):
    return '%d:%d:%s:%d:%s:%d' % (f.num, f.size, proto.arg(f.sk), f.sp, proto.arg(f.lk), f.lp)


def fmt_files(fs):
    return ','.join(fmt_file(f) for f in fs) if fs else '.'


def fmt_version(v):
    return '|'.join(fmt_files(l) for l in v)


def fmt_ikey(k):
    return '*' if k is None else '%s:%d' % (proto.arg(k[0]), k[1])


def fmt_ukey(k):
    return '*' if k is None else proto.arg(k)


def fmt_nums(fs):
    return ','.join(str(f.num) for f in fs) if fs else '.'


def parse_nums(s):
    if s == '.':
        return []
    return [int(x) for x in s.split(',')]


# ------------------------------------------------------------------ definitions used by the [prop] oracles
def intersects(c, f, lo, hi):
    """user-key range of f meets [lo, hi]; None = -inf / +inf"""
    if lo is not None and ucmp(c, f.lk, lo) < 0:
        return False
    if hi is not None and ucmp(c, f.sk, hi) > 0:
        return False
    return True


def uhull(c, fs):
    return umin(c, [f.sk for f in fs]), umax(c, [f.lk for f in fs])


def level0_closure(c, files, b, e):
    """least set containing the files meeting [b,e] and closed under 'meets the hull of the set and the range'"""
    S = [f for f in files if intersects(c, f, b, e)]
    while True:
        lo = None if b is None else umin(c, [b] + [f.sk for f in S])
        hi = None if e is None else umax(c, [e] + [f.lk for f in S])
        T = [f for f in files if intersects(c, f, lo, hi)]
        if len(T) == len(S):
            return S
        S = T


def boundary_closure(c, lv, X):
    """X plus, repeatedly, the file of lv with the smallest `smallest` key among those that start with the same user
    key as the current upper bound but after it"""
    X = list(X)
    if not X:
        return X
    cur = imax(c, [large(f) for f in X])
    for _ in range(len(lv) + 2):
        cands = [h for h in lv if ucmp(c, h.sk, cur[0]) == 0 and icmp(c, small(h), cur) > 0]
        if not cands:
            return X
        g = cands[0]
        for h in cands[1:]:
            if icmp(c, small(h), small(g)) < 0:
                g = h
        X.append(g)
        cur = large(g)
    raise RuntimeError('boundary_closure does not terminate (inverted file?)')


def unsafe_boundary(c, lv, chosen):
    """a file staying in the level that holds an older version of a user key whose newer version leaves:
    g not chosen, some chosen f with user(f.largest) == user(g.smallest) and g.smallest > f.largest"""
    nums = {f.num for f in chosen}
    for f in chosen:
        for g in lv:
            if g.num not in nums and ucmp(c, g.sk, f.lk) == 0 and icmp(c, small(g), large(f)) > 0:
                return (f.num, g.num)
    return None


def total(fs):
    return sum(f.size for f in fs)


# ------------------------------------------------------------------ literal re-play of the C control flow ([ref] + statistics)
def sim_find(c, files, key):
    left, right = 0, len(files)
    while left < right:
        mid = (left + right) // 2
        if icmp(c, large(files[mid]), key) < 0:
            left = mid + 1
        else:
            right = mid
    return right


def sim_overlap(c, disjoint, files, lo, hi):
    def after(k, f):
        return k is not None and ucmp(c, k, f.lk) > 0

    def before(k, f):
        return k is not None and ucmp(c, k, f.sk) < 0
    if not disjoint:
        return any(not (after(lo, f) or before(hi, f)) for f in files)
    idx = 0
    if lo is not None:
        idx = sim_find(c, files, (lo, MAXPACKED))
    if idx >= len(files):
        return False
    return not before(hi, files[idx])


def sim_goi(c, files, level0, b, e, st=None):
    """b, e: user keys or None"""
    res = []
    i = 0
    nb = ne = 0
    while i < len(files):
        f = files[i]
        i += 1
        if b is not None and ucmp(c, f.lk, b) < 0:
            continue
        if e is not None and ucmp(c, f.sk, e) > 0:
            continue
        res.append(f)
        if level0:
            if b is not None and ucmp(c, f.sk, b) < 0:
                b = f.sk
                res = []
                i = 0
                nb += 1
            elif e is not None and ucmp(c, f.lk, e) > 0:
                e = f.lk
                res = []
                i = 0
                ne += 1
    if st is not None and level0:
        if nb:
            st.append('goi0-restart-begin')
        if ne:
            st.append('goi0-restart-end')
        if nb + ne >= 2:
            st.append('goi0-restarts>=2')
        if nb + ne >= 3:
            st.append('goi0-restarts>=3')
    return res


def sim_pick(c, v, mfs, sk, lk):
    if sim_overlap(c, False, v[0], sk, lk):
        return 0
    level = 0
    while level < 2:
        if sim_overlap(c, True, v[level + 1], sk, lk):
            break
        if level + 2 < NLEVELS:
            if total(sim_goi(c, v[level + 2], False, sk, lk)) > 10 * mfs:
                break
        level += 1
    return level


def sim_boundary(c, lv, inputs, st=None):
    out = list(inputs)
    if not out:
        return out
    cur = large(out[0])
    for f in out[1:]:
        if icmp(c, large(f), cur) > 0:
            cur = large(f)
    added = 0
    while True:
        res = None
        for f in lv:
            if icmp(c, small(f), cur) <= 0:
                continue
            if ucmp(c, f.sk, cur[0]) == 0:
                if res is None or icmp(c, small(f), small(res)) < 0:
                    res = f
        if res is None:
            break
        out.append(res)
        cur = large(res)
        added += 1
        if added > len(lv) + 1:
            raise RuntimeError('sim_boundary: no termination')
    if st is not None and added:
        st.append('boundary-added')
        if added >= 2:
            st.append('boundary-added>=2')
    return out


def get_range(c, fs):
    s, l = small(fs[0]), large(fs[0])
    for f in fs[1:]:
        if icmp(c, small(f), s) < 0:
            s = small(f)
        if icmp(c, large(f), l) > 0:
            l = large(f)
    return s, l


def sim_setup(c, mfs, v, level, in0, st, trace=None):
    """returns (in0, in1, grandparents, compact pointer)"""
    lv, lv1 = v[level], v[level + 1]
    in0 = sim_boundary(c, lv, in0, st)
    smallest, largest = get_range(c, in0)
    in1 = sim_boundary(c, lv1, sim_goi(c, lv1, False, smallest[0], largest[0]), st)
    all_s, all_l = get_range(c, in0 + in1)
    if in1:
        st.append('expand-considered')
        e0 = sim_boundary(c, lv, sim_goi(c, lv, level == 0, all_s[0], all_l[0], st), st)
        if trace is not None:
            trace['in0'] = in0
            trace['in1'] = in1
            trace['e0'] = e0
        if not len(e0) > len(in0):
            st.append('expand-refused-nogrowth')
        elif not total(in1) + total(e0) < 25 * mfs:
            st.append('expand-refused-size')
            if total(in1) + total(e0) == 25 * mfs:
                st.append('expand-size==25x')
        else:
            if total(in1) + total(e0) == 25 * mfs - 1:
                st.append('expand-size==25x-1')
            ns, nl = get_range(c, e0)
            e1 = sim_boundary(c, lv1, sim_goi(c, lv1, False, ns[0], nl[0]), st)
            if len(e1) == len(in1):
                st.append('expand-taken')
                smallest, largest = ns, nl
                in0, in1 = e0, e1
                all_s, all_l = get_range(c, in0 + in1)
            else:
                st.append('expand-refused-in1count')
    gp = []
    if level + 2 < NLEVELS:
        gp = sim_goi(c, v[level + 2], False, all_s[0], all_l[0])
    return in0, in1, gp, largest


def show_setup(mfs, s):
    in0, in1, gp, cp = s
    triv = len(in0) == 1 and len(in1) == 0 and total(gp) <= 10 * mfs
    return '%s;%s;%s;%s:%d;%d' % (fmt_nums(in0), fmt_nums(in1), fmt_nums(gp), proto.show_bytes(cp[0]), cp[1], 1 if triv else 0)


def setup_tags(mfs, s, st):
    in0, in1, gp, cp = s
    if len(in0) == 1 and len(in1) == 0:
        if total(gp) <= 10 * mfs:
            st.append('trivial=1')
            if gp:
                st.append('trivial=1-with-grandparents')
            if total(gp) == 10 * mfs and mfs > 0:
                st.append('trivial-gp==10x')
        else:
            st.append('trivial-refused-by-grandparents')
            if total(gp) == 10 * mfs + 1:
                st.append('trivial-gp==10x+1')


def any_inverted(c, v):
    return any(inverted(c, f) for l in v for f in l)


def sim_range(c, mfs, v, level, b, e, st, trace=None):
    """b, e internal keys or None; returns the expected response"""
    if any_inverted(c, v):
        st.append('inverted')
        return 'inverted'
    inputs = sim_goi(c, v[level], level == 0, None if b is None else b[0], None if e is None else e[0], st)
    if not inputs:
        st.append('null')
        return 'null'
    if level > 0:
        tot = 0
        for i, f in enumerate(inputs):
            tot += f.size
            if tot >= mfs:
                if i + 1 < len(inputs):
                    st.append('cut-fired')
                if tot == mfs:
                    st.append('cut-total==limit')
                inputs = inputs[:i + 1]
                break
    if level + 1 >= NLEVELS:
        st.append('fault')
        return 'fault'
    s = sim_setup(c, mfs, v, level, inputs, st, trace)
    setup_tags(mfs, s, st)
    return show_setup(mfs, s)


def sim_pickc(c, mfs, v, sizelevel, seek, cp, st, trace=None):
    """seek = (level, file) or None; cp internal key or None"""
    if any_inverted(c, v):
        st.append('inverted')
        return 'inverted'
    if sizelevel is not None:
        level = sizelevel
        if level + 1 >= NLEVELS:
            st.append('fault')
            return 'fault'
        in0 = []
        for f in v[level]:
            if cp is None or icmp(c, large(f), cp) > 0:
                in0 = [f]
                break
        if not in0:
            if not v[level]:
                st.append('fault')
                return 'fault'
            st.append('pickc-wraparound')
            in0 = [v[level][0]]
        st.append('pickc-size')
    elif seek is not None:
        level, f = seek
        in0 = [f]
        st.append('pickc-seek')
    else:
        st.append('null')
        return 'null'
    if level == 0:
        s, l = get_range(c, in0)
        in0 = sim_goi(c, v[0], True, s[0], l[0], st)
    if level + 1 >= NLEVELS:
        st.append('fault')
        return 'fault'
    s = sim_setup(c, mfs, v, level, in0, st, trace)
    setup_tags(mfs, s, st)
    return '%d;%s' % (level, show_setup(mfs, s))


# ------------------------------------------------------------------ data generation
KEY_POOL = [b'a', b'b', b'c', b'd', b'e', b'f', b'g', b'h', b'i', b'j', b'k', b'm', b'p', b't', b'z',
            b'ab', b'ac', b'b\x00', b'ba', b'zz', b'abc', b'k1', b'k10', b'\x00', b'\xff', b'\xff\xff', b'a\xff', b'']


def gen_alpha(rng, c, lo=4, hi=12):
    n = rng.range(lo, hi)
    ks = []
    pool = KEY_POOL[:15] if rng.chance(1, 2) else KEY_POOL
    for _ in range(4 * n):
        k = rng.choice(pool)
        if k not in ks:
            ks.append(k)
        if len(ks) >= n:
            break
    return usort(c, ks)


def gen_packed(rng, big=False):
    if big and rng.chance(1, 4):
        seq = rng.choice([MAXSEQ, MAXSEQ - 1, MAXSEQ - 2, 1 << 48, 1 << 32])
    else:
        seq = rng.range(0, 12)
    return seq * 256 + (1 if rng.chance(2, 3) else 0)


def gen_cands(rng, c, alpha, big=False, dense=False):
    """sorted (internal-key order) candidate boundary keys: each user key with 1..5 strictly descending trailers"""
    cands = []
    for k in alpha:
        nv = rng.choice([2, 3, 4, 5]) if dense else rng.choice([1, 1, 2, 2, 3, 4])
        ps = set()
        for _ in range(nv):
            ps.add(gen_packed(rng, big))
        for p in sorted(ps, reverse=True):
            cands.append((k, p))
    return cands


class Nums:
    def __init__(self, rng):
        self.rng = rng
        self.used = set()

    def fresh(self):
        while True:
            n = self.rng.range(1, 400) if not self.rng.chance(1, 50) else self.rng.choice([(1 << 63) - 1, 1 << 40, 0])
            if n not in self.used:
                self.used.add(n)
                return n


def gen_size(rng, mfs, profile):
    return max(0, _gen_size(rng, mfs, profile))


def _gen_size(rng, mfs, profile):
    m = max(mfs, 1)
    if profile == 0:        # small files: several fit below max_file_size
        return rng.choice([0, 1, 2, m // 10, m // 4, m // 3, m // 2, m // 2 + 1])
    if profile == 1:        # around max_file_size
        return rng.choice([m - 1, m, m + 1, m // 2, 2 * m, 3 * m // 2, m - 2])
    if profile == 2:        # around the 10x / 25x thresholds when a handful are added up
        return rng.choice([2 * m, 3 * m, 4 * m, 5 * m, 6 * m, 8 * m, 10 * m, 10 * m + 1, 10 * m - 1, 12 * m, 13 * m])
    return rng.choice([1, m // 2, m, 2 * m, 5 * m, 10 * m, 25 * m, rng.range(0, 3 * m)])


def gen_sorted_level(rng, c, alpha, nfiles, nums, mfs, profile, big=False, dense=False):
    """a valid level >= 1: files sorted and disjoint in internal-key order; adjacent files share a user key at the
    boundary whenever adjacent candidates of the same user key are drawn (frequent with `dense`)"""
    cands = gen_cands(rng, c, alpha, big, dense)
    want = min(2 * nfiles, len(cands))
    if want < 2:
        return []
    if dense and rng.chance(1, 2):
        # contiguous stretch of candidates: every boundary is a split user key where possible
        start = rng.below(len(cands) - want + 1)
        pos = list(range(start, start + want))
    else:
        pos = set()
        while len(pos) < want:
            pos.add(rng.below(len(cands)))
        pos = sorted(pos)
    files = []
    i = 0
    while i + 1 < len(pos) or (i < len(pos) and rng.chance(1, 2)):
        if i + 1 >= len(pos) or rng.chance(1, 8):
            s = l = cands[pos[i]]          # single-key file
            i += 1
        else:
            s, l = cands[pos[i]], cands[pos[i + 1]]
            i += 2
        files.append(F(nums.fresh(), gen_size(rng, mfs, profile), s[0], s[1], l[0], l[1]))
    return files


def gen_level0(rng, c, alpha, nfiles, nums, mfs, profile, big=False):
    """level 0: overlapping files; often explicit chains listed in an order that forces several restarts"""
    files = []
    n = len(alpha)

    def mk(i, j):
        a, b = (alpha[i], gen_packed(rng, big)), (alpha[j], gen_packed(rng, big))
        if icmp(c, a, b) > 0:
            a, b = b, a
        return F(nums.fresh(), gen_size(rng, mfs, profile), a[0], a[1], b[0], b[1])
    mode = rng.below(6)
    if mode < 3 and n >= 3 and nfiles >= 2:
        # chain: [i,i+w],[i+w,i+2w'],... each file touching or overlapping the next
        start = rng.below(max(n - nfiles, 1))
        i = start
        for _ in range(nfiles):
            w = rng.choice([0, 1, 1, 1, 2])
            j = min(i + w, n - 1)
            files.append(mk(i, j))
            i = j if rng.chance(2, 3) else min(j + rng.choice([0, 1]), n - 1)   # sometimes a gap of one key: chain broken
        order = rng.below(4)
        if order == 0:
            files.reverse()         # widening `end` finds one more file per pass
        elif order == 1:
            pass                    # widening `begin` when the request hits the far end
        else:
            for k in range(len(files) - 1, 0, -1):
                j = rng.below(k + 1)
                files[k], files[j] = files[j], files[k]
    else:
        for _ in range(nfiles):
            i = rng.below(n)
            j = min(i + rng.choice([0, 0, 1, 1, 2, 3]), n - 1)
            files.append(mk(i, j))
    return files


def gen_valid_version(rng, c, mfs=None, want_level=None):
    """(version, alphabet, mfs): level 0 arbitrary (chains), levels >= 1 sorted & disjoint"""
    if mfs is None:
        mfs = rng.choice([100, 100, 200, 500, 1000, 1000]) if not rng.chance(1, 25) else rng.choice([0, 1, 7, (1 << 32) - 1])
    alpha = gen_alpha(rng, c, 3, 12)
    nums = Nums(rng)
    big = rng.chance(1, 8)
    dense = rng.chance(1, 2)
    v = []
    shape = rng.below(4)
    for level in range(NLEVELS):
        profile = rng.choice([0, 1, 1, 2, 2, 3])
        if shape == 0:
            nf = rng.choice([0, 1, 2, 3, 4, 5])
        elif shape == 1:
            nf = rng.choice([0, 0, 1, 2]) if level > 3 else rng.choice([1, 2, 3, 4, 6])
        elif shape == 2:
            nf = rng.choice([0, 0, 0, 1, 3])
        else:
            nf = rng.choice([2, 3, 4, 5, 6, 8])
        if want_level is not None and level in (want_level, want_level + 1) and nf == 0:
            nf = rng.choice([1, 2, 3, 4])
        if level == 0:
            v.append(gen_level0(rng, c, alpha, nf, nums, mfs, profile, big))
        else:
            v.append(gen_sorted_level(rng, c, alpha, nf, nums, mfs, profile, big, dense))
    return v, alpha, mfs


def break_version(rng, c, v, alpha, mfs):
    """violate the level invariants WITHOUT making any file inverted; returns the kind"""
    lv = [l for l in range(1, NLEVELS) if len(v[l]) >= 2]
    kind = rng.choice(['unsorted', 'overlap', 'dupfile', 'dupnum', 'shuffle-all'])
    if not lv and kind in ('unsorted', 'overlap', 'dupfile'):
        kind = 'dupnum'
    if kind == 'unsorted':
        l = rng.choice(lv)
        i = rng.below(len(v[l]) - 1)
        v[l][i], v[l][i + 1] = v[l][i + 1], v[l][i]
    elif kind == 'overlap':
        l = rng.choice(lv)
        i = rng.below(len(v[l]) - 1)
        f, g = v[l][i], v[l][i + 1]
        if rng.chance(1, 2):
            v[l][i] = f._replace(lk=g.lk, lp=g.lp)          # f now covers g
        else:
            v[l][i + 1] = g._replace(sk=f.sk, sp=f.sp)
    elif kind == 'dupfile':
        l = rng.choice(lv)
        i = rng.below(len(v[l]))
        v[l].insert(rng.below(len(v[l]) + 1), v[l][i])
    elif kind == 'dupnum':
        allf = [(l, i) for l in range(NLEVELS) for i in range(len(v[l]))]
        if len(allf) >= 2:
            (l1, i1), (l2, i2) = rng.choice(allf), rng.choice(allf)
            v[l2][i2] = v[l2][i2]._replace(num=v[l1][i1].num)
    else:
        for l in range(1, NLEVELS):
            for k in range(len(v[l]) - 1, 0, -1):
                j = rng.below(k + 1)
                v[l][k], v[l][j] = v[l][j], v[l][k]
    return kind


def invert_some(rng, c, v):
    """make at least one file inverted (largest < smallest in internal-key order): by user key or only by trailer"""
    allf = [(l, i) for l in range(NLEVELS) for i in range(len(v[l]))]
    if not allf:
        v[rng.below(NLEVELS)].append(F(1, 10, b'b', 5 * 256 + 1, b'a', 5 * 256 + 1))
        return 'user'
    l, i = rng.choice(allf)
    f = v[l][i]
    if ucmp(c, f.sk, f.lk) != 0 and rng.chance(2, 3):
        v[l][i] = f._replace(sk=f.lk, sp=f.lp, lk=f.sk, lp=f.sp)
        return 'user'
    # same user key, smallest trailer below largest trailer
    p = gen_packed(rng)
    v[l][i] = f._replace(lk=f.sk, sp=p, lp=p + rng.choice([1, 256, 257]))
    return 'trailer'


def gen_ukey(rng, alpha):
    k = rng.below(12)
    if k < 8:
        return rng.choice(alpha)
    if k < 10:
        return rng.choice(alpha) + bytes([rng.choice([0, 0x61, 0xff])])
    return rng.choice(KEY_POOL)


def gen_urange(rng, c, alpha, allow_null=True, ordered=True):
    a, b = gen_ukey(rng, alpha), gen_ukey(rng, alpha)
    if rng.chance(1, 3):
        b = a
    if ucmp(c, a, b) > 0 and (ordered or rng.chance(9, 10)):
        a, b = b, a
    if allow_null:
        if rng.chance(1, 8):
            a = None
        if rng.chance(1, 8):
            b = None
    return a, b


def range_ordered(c, a, b):
    return a is None or b is None or ucmp(c, a, b) <= 0


def wrap_ikey(rng, k):
    return None if k is None else (k, rng.choice([gen_packed(rng), MAXPACKED, 0, (1 << 64) - 1]))


# ------------------------------------------------------------------ tuning of sizes onto the thresholds
def set_size(v, num, size):
    for l in range(NLEVELS):
        for i, f in enumerate(v[l]):
            if f.num == num:
                v[l][i] = f._replace(size=size)
                return


def tune_to(rng, v, files, fixed_sum, target):
    """change the size of one of `files` so that fixed_sum + total(files) lands on target-1 / target / target+1"""
    if not files:
        return False
    f = rng.choice(files)
    want = target + rng.choice([-1, 0, 0, 1]) - fixed_sum - (total(files) - f.size)
    if 0 <= want < (1 << 40):
        set_size(v, f.num, want)
        return True
    return False


def tune_setup(rng, c, mfs, v, run):
    """run: callable(st, trace) replaying the request; puts sizes on the 25x (expansion) or 10x (trivial move) threshold"""
    trace = {}
    try:
        run([], trace)
    except Exception:
        return
    if rng.chance(3, 4) and 'e0' in trace and len(trace['e0']) > len(trace['in0']):
        extra = [f for f in trace['e0'] if f.num not in {g.num for g in trace['in0']}]
        nums = [f.num for f in trace['e0']] + [f.num for f in trace['in1']]
        if len(set(nums)) == len(nums):
            rest = total(trace['in1']) + total(trace['e0']) - total(extra)
            tune_to(rng, v, extra, rest, 25 * mfs)


# ------------------------------------------------------------------ case builders
def mk(suite, req, tags, valid, oracles):
    def oracle(resp):
        for o in oracles:
            try:
                why = o(resp)
            except Exception as ex:      # a malformed response is a violation, not a crash of the runner
                why = 'oracle could not read the response %r: %r' % (resp[:80], ex)
            if why:
                return why
        return None
    return Case(suite, req, oracle=oracle if oracles else None, meta={'tags': tags, 'valid': valid})


def ref_oracle(expected):
    def o(resp):
        return None if resp == expected else '[ref] literal re-play of the C control flow gives %s, implementation %s' % (expected[:200], resp[:200])
    return o


def by_nums(files, nums, what):
    m = {}
    for f in files:
        m.setdefault(f.num, f)
    out = []
    for n in nums:
        if n not in m:
            raise ValueError('%s: file number %d is not in the level' % (what, n))
        out.append(m[n])
    return out


def is_subsequence(files, sub):
    it = iter(files)
    return all(any(g is f for g in it) for f in sub)


# ---- pfind
def case_find(rng, valid=True):
    c = rng.choice(CMPS)
    alpha = gen_alpha(rng, c)
    nums = Nums(rng)
    files = gen_sorted_level(rng, c, alpha, rng.choice([0, 1, 2, 3, 5, 8, 13]), nums, 100, 0, rng.chance(1, 6), rng.chance(1, 2))
    if not valid and len(files) >= 2:
        k = rng.below(3)
        if k == 0:
            files.reverse()
        elif k == 1:
            i = rng.below(len(files) - 1)
            files[i], files[i + 1] = files[i + 1], files[i]
        else:
            files.append(files[rng.below(len(files))])
    j = rng.below(10)
    if files and j < 5:
        f = rng.choice(files)
        base = rng.choice([large(f), small(f)])
        key = (base[0], max(0, min((1 << 64) - 1, base[1] + rng.choice([-256, -1, 0, 0, 1, 256]))))
    elif j < 8:
        key = (gen_ukey(rng, alpha), rng.choice([gen_packed(rng), MAXPACKED, 0]))
    else:
        key = (gen_ukey(rng, alpha), rng.choice([(1 << 64) - 1, MAXPACKED + 1, 1 << 63]))
    req = 'pfind %s %s %s %d' % (c, fmt_files(files), proto.arg(key[0]), key[1])
    exp = str(sim_find(c, files, key))
    oracles = [ref_oracle(exp)]
    if valid:
        def prop(resp):
            idx = int(resp)
            want = next((i for i, f in enumerate(files) if icmp(c, large(f), key) >= 0), len(files))
            return None if idx == want else '[prop] find_file: first index with largest >= target is %d, got %d' % (want, idx)
        oracles.insert(0, prop)
    return mk('pol-find' if valid else 'pol-find-x', req, ['pfind'], valid, oracles)


# ---- poverlap
def case_overlap(rng, valid=True):
    c = rng.choice(CMPS)
    alpha = gen_alpha(rng, c)
    nums = Nums(rng)
    d = rng.chance(1, 2)
    if d or rng.chance(1, 3):
        files = gen_sorted_level(rng, c, alpha, rng.choice([0, 1, 2, 3, 5, 8]), nums, 100, 0, rng.chance(1, 6), rng.chance(1, 2))
    else:
        files = gen_level0(rng, c, alpha, rng.choice([0, 1, 2, 3, 5]), nums, 100, 0)
    if not valid:
        if len(files) >= 2:
            i = rng.below(len(files) - 1)
            files[i], files[i + 1] = files[i + 1], files[i]
            if rng.chance(1, 2):
                files.reverse()
        if files and rng.chance(1, 3):
            i = rng.below(len(files))
            f = files[i]
            files[i] = f._replace(sk=f.lk, sp=f.lp, lk=f.sk, lp=f.sp)     # poverlap has no `inverted` answer
        d = True
    lo, hi = gen_urange(rng, c, alpha, True, ordered=rng.chance(9, 10))
    req = 'poverlap %s %d %s %s %s' % (c, 1 if d else 0, fmt_files(files), fmt_ukey(lo), fmt_ukey(hi))
    exp = '1' if sim_overlap(c, d, files, lo, hi) else '0'
    oracles = [ref_oracle(exp)]
    if valid:
        def prop(resp):
            want = any(intersects(c, f, lo, hi) for f in files)
            return None if resp == ('1' if want else '0') else '[prop] some_file_overlaps_range(%d): a file meeting the range exists = %s, got %s' % (d, want, resp)
        oracles.insert(0, prop)
    return mk('pol-overlap' if valid else 'pol-overlap-x', req, ['poverlap-%d' % d, 'poverlap=' + exp], valid, oracles)


# ---- pgoi
def goi_request_range(rng, c, v, alpha, level):
    """ranges biased to the ends of level-0 chains (restart) and to file boundaries"""
    if v[level] and rng.chance(1, 2):
        f = rng.choice(v[level])
        k = rng.choice([f.sk, f.lk])
        a, b = k, k
        if rng.chance(1, 3):
            g = rng.choice(v[level])
            b = rng.choice([g.sk, g.lk])
            if ucmp(c, a, b) > 0:
                a, b = b, a
        if rng.chance(1, 10):
            a = None
        if rng.chance(1, 10):
            b = None
        return a, b
    return gen_urange(rng, c, alpha, True, ordered=rng.chance(19, 20))


def goi_prop(c, files, level0, b, e):
    def prop(resp):
        R = by_nums(files, parse_nums(resp), 'pgoi')
        if len({f.num for f in R}) != len(R):
            return '[prop] get_overlapping_inputs: a file is listed twice'
        if not is_subsequence(files, R):
            return '[prop] get_overlapping_inputs: files are not in level order'
        inR = {f.num for f in R}
        for f in files:
            if intersects(c, f, b, e) and f.num not in inR:
                return '[prop] get_overlapping_inputs: file %d meets the requested range and is missing' % f.num
        if not level0:
            for f in R:
                if not intersects(c, f, b, e):
                    return '[prop] get_overlapping_inputs: file %d does not meet the requested range' % f.num
            return None
        lo = None if b is None else umin(c, [b] + [f.sk for f in R])
        hi = None if e is None else umax(c, [e] + [f.lk for f in R])
        for f in files:
            if intersects(c, f, lo, hi) != (f.num in inR):
                return '[prop] level-0 closure: file %d %s the hull of the result' % (f.num, 'meets' if f.num not in inR else 'is listed but does not meet')
        for g in files:
            if g.num not in inR and any(intersects(c, g, f.sk, f.lk) for f in R):
                return '[prop] level-0 closure: file %d outside the result overlaps a file inside' % g.num
        S = level0_closure(c, files, b, e)
        if [f.num for f in S] != [f.num for f in R]:
            return '[prop] level-0 closure: not the least closed set (%s)' % fmt_nums(S)
        return None
    return prop


def case_goi(rng, valid=True):
    c = rng.choice(CMPS)
    level = rng.choice([0, 0, 0, 0, 1, 1, 2, 3, 6])
    v, alpha, mfs = gen_valid_version(rng, c, 100, want_level=level if level < 6 else None)
    tags = ['pgoi-level0' if level == 0 else 'pgoi-level>0']
    if not valid:
        tags.append('broken:' + break_version(rng, c, v, alpha, mfs))
        if rng.chance(1, 4):
            tags.append('inverted-file:' + invert_some(rng, c, v))    # pgoi answers on inverted files
    a, b = goi_request_range(rng, c, v, alpha, level)
    bi, ei = wrap_ikey(rng, a), wrap_ikey(rng, b)
    req = 'pgoi %s %s %d %s %s' % (c, fmt_version(v), level, fmt_ikey(bi), fmt_ikey(ei))
    st = []
    exp = fmt_nums(sim_goi(c, v[level], level == 0, a, b, st))
    if exp == '.':
        st.append('pgoi-empty')
    oracles = [ref_oracle(exp)]
    distinct = len({f.num for f in v[level]}) == len(v[level])
    if distinct and range_ordered(c, a, b) and (level > 0 or valid):
        oracles.insert(0, goi_prop(c, v[level], level == 0, a, b))
    return mk('pol-goi' if valid else 'pol-goi-x', req, tags + st, valid, oracles)


# ---- ppick
def case_pick(rng, valid=True):
    c = rng.choice(CMPS)
    v, alpha, mfs = gen_valid_version(rng, c)
    shape = rng.below(5)
    if shape < 3:
        # memtable flushes mostly land where the upper levels are thin
        for l in range(0, 3 if shape == 0 else 2 if shape == 1 else 1):
            if rng.chance(3, 4):
                v[l] = v[l][:rng.choice([0, 0, 1])]
    tags = []
    if not valid:
        tags.append('broken:' + break_version(rng, c, v, alpha, mfs))
        if rng.chance(1, 4):
            tags.append('inverted-file:' + invert_some(rng, c, v))
    sk, lk = gen_urange(rng, c, alpha, False, ordered=rng.chance(19, 20))
    if rng.chance(1, 2):
        i = rng.below(len(alpha))         # a narrow new table
        sk, lk = alpha[i], alpha[min(i + rng.choice([0, 0, 1, 2]), len(alpha) - 1)]
    if rng.chance(1, 2):
        for l in (2, 3):
            ov = [f for f in v[l] if intersects(c, f, sk, lk)]
            if ov and rng.chance(1, 2):
                if tune_to(rng, v, ov, 0, 10 * mfs):
                    tags.append('ppick-tuned-10x')
                    break
    req = 'ppick %s %s %d %s %s' % (c, fmt_version(v), mfs, proto.arg(sk), proto.arg(lk))
    exp = sim_pick(c, v, mfs, sk, lk)
    tags.append('ppick=%d' % exp)
    if ucmp(c, sk, lk) <= 0:
        ov = lambda l: any(intersects(c, f, sk, lk) for f in v[l])
        gpb = lambda l: total([f for f in v[l] if intersects(c, f, sk, lk)])
        if exp == 0:
            tags.append('ppick0-by-' + ('level0' if ov(0) else 'level1' if ov(1) else 'grandparents'))
        elif exp == 1:
            tags.append('ppick1-by-' + ('level2' if ov(2) else 'grandparents'))
        if exp == 2 and (gpb(2) > 0 or gpb(3) > 0):
            tags.append('ppick2-with-grandparent-bytes')
    for l in (2, 3):
        if total([f for f in v[l] if intersects(c, f, sk, lk)]) in (10 * mfs, 10 * mfs + 1) and mfs > 0:
            tags.append('ppick-gp-on-threshold')
            break
    oracles = [ref_oracle(str(exp))]
    if valid and ucmp(c, sk, lk) <= 0:
        def meets(l):
            return any(intersects(c, f, sk, lk) for f in v[l])

        def gp(l):
            return total([f for f in v[l] if intersects(c, f, sk, lk)]) if l < NLEVELS else 0

        def prop(resp):
            L = int(resp)
            if not 0 <= L <= 2:
                return '[prop] pick_level: %d is above LDB_MAX_MEM_COMPACT_LEVEL' % L
            for l in range(0, L + 1):
                if L > 0 and meets(l):
                    return '[prop] pick_level: level %d <= result %d has a file overlapping the new table' % (l, L)
            for l in range(0, L):
                if gp(l + 2) > 10 * mfs:
                    return '[prop] pick_level: passed level %d although %d grandparent bytes > 10x' % (l, gp(l + 2))
            if L < 2 and not (meets(0) or meets(L + 1) or gp(L + 2) > 10 * mfs):
                return '[prop] pick_level: stopped at %d without a reason (no overlap in level %d, %d grandparent bytes)' % (L, L + 1, gp(L + 2))
            return None
        oracles.insert(0, prop)
    return mk('pol-pick' if valid else 'pol-pick-x', req, tags, valid, oracles)


# ---- pboundary
def boundary_prop(c, lv, inputs):
    def prop(resp):
        if resp in ('inverted', 'fault'):
            return '[prop] add_boundary_inputs: unexpected %s' % resp
        nums = parse_nums(resp)
        if nums[:len(inputs)] != [f.num for f in inputs]:
            return '[prop] add_boundary_inputs: the given files are not a prefix of the result'
        R = by_nums(lv, nums, 'pboundary')
        if not inputs:
            return None if not R else '[prop] add_boundary_inputs: files added to an empty set'
        cur = imax(c, [large(f) for f in inputs])
        for g in R[len(inputs):]:
            if not (ucmp(c, g.sk, cur[0]) == 0 and icmp(c, small(g), cur) > 0):
                return '[prop] add_boundary_inputs: file %d is not a boundary file of the current upper bound' % g.num
            for h in lv:
                if ucmp(c, h.sk, cur[0]) == 0 and icmp(c, small(h), cur) > 0 and icmp(c, small(h), small(g)) < 0:
                    return '[prop] add_boundary_inputs: file %d is a smaller boundary file than %d' % (h.num, g.num)
            cur = large(g)
        top = imax(c, [large(f) for f in R])
        for h in lv:
            if ucmp(c, h.sk, top[0]) == 0 and icmp(c, small(h), top) > 0:
                return '[prop] add_boundary_inputs: not closed: file %d starts with the user key of the upper bound, after it' % h.num
        return None
    return prop


def case_boundary(rng, kind='valid'):
    c = rng.choice(CMPS)
    alpha = gen_alpha(rng, c, 2, 8)
    nums = Nums(rng)
    level0 = rng.chance(1, 4)
    if level0:
        lv = gen_level0(rng, c, alpha, rng.choice([1, 2, 3, 5]), nums, 100, 0)
    else:
        lv = gen_sorted_level(rng, c, alpha, rng.choice([1, 2, 3, 4, 6, 8]), nums, 100, 0, rng.chance(1, 6), rng.chance(3, 4))
    tags = ['pboundary']
    if kind != 'valid' and len(lv) >= 2:
        k = rng.below(3)
        if k == 0:
            lv.reverse()
        elif k == 1:
            i = rng.below(len(lv) - 1)
            lv[i], lv[i + 1] = lv[i + 1], lv[i]
        else:
            lv.insert(rng.below(len(lv)), lv[rng.below(len(lv))])
    if kind == 'inv':
        vv = [[], lv] + [[] for _ in range(5)]
        tags.append('inverted-file:' + invert_some(rng, c, vv))
        lv = vv[1] if vv[1] else vv[0] + vv[2] + vv[3] + vv[4] + vv[5] + vv[6]
    inputs = []
    if lv:
        k = rng.below(8)
        if k < 5:
            i = rng.below(len(lv))
            j = min(len(lv), i + rng.choice([1, 1, 1, 2, 3]))
            inputs = lv[i:j]
        elif k < 7:
            inputs = [f for f in lv if rng.chance(1, 3)]
            if rng.chance(1, 2):
                inputs.reverse()
        if kind != 'valid' and inputs and rng.chance(1, 3):
            inputs = inputs + [inputs[0]]
    # first match by number
    firsts = {}
    for f in lv:
        firsts.setdefault(f.num, f)
    inputs = [firsts[f.num] for f in inputs]
    req = 'pboundary %s %s %s' % (c, fmt_files(lv), fmt_nums(inputs))
    st = []
    if any(inverted(c, f) for f in lv):
        exp = 'inverted'
        st.append('inverted')
    else:
        exp = fmt_nums(sim_boundary(c, lv, inputs, st))
    oracles = [ref_oracle(exp)]
    if kind == 'valid':
        oracles.insert(0, boundary_prop(c, lv, inputs))
    suite = {'valid': 'pol-boundary', 'x': 'pol-boundary-x', 'inv': 'pol-inverted'}[kind]
    return mk(suite, req, tags + st, kind == 'valid', oracles)


# ---- setup contracts shared by prange / ppickc
def setup_prop(c, mfs, v, level, resp, what):
    """contracts of setup_other_inputs on a valid version; returns (why, in0, in1) """
    parts = resp.split(';')
    if len(parts) != 5:
        return '[prop] %s: malformed setup %r' % (what, resp[:80]), None, None
    lv, lv1 = v[level], v[level + 1]
    lv2 = v[level + 2] if level + 2 < NLEVELS else []
    in0 = by_nums(lv, parse_nums(parts[0]), what + ' in0')
    in1 = by_nums(lv1, parse_nums(parts[1]), what + ' in1')
    gp = by_nums(lv2, parse_nums(parts[2]), what + ' grandparents')
    if not in0:
        return '[prop] %s: inputs[0] is empty' % what, None, None
    for name, fs in (('inputs[0]', in0), ('inputs[1]', in1), ('grandparents', gp)):
        if len({f.num for f in fs}) != len(fs):
            return '[prop] %s: %s lists a file twice' % (what, name), None, None
    if level >= 1:
        idx = [next(i for i, f in enumerate(lv) if f.num == g.num) for g in in0]
        if idx != list(range(idx[0], idx[0] + len(idx))):
            return '[prop] %s: inputs[0] is not a contiguous run of the level' % what, None, None
    bad = unsafe_boundary(c, lv, in0)
    if bad:
        return '[prop] %s: (a) file %d stays in level %d with an older version of the largest user key of input file %d' % (what, bad[1], level, bad[0]), None, None
    h0 = uhull(c, in0)
    in1nums = {f.num for f in in1}
    for g in lv1:
        if intersects(c, g, h0[0], h0[1]) and g.num not in in1nums:
            return "[prop] %s: level+1 file %d overlaps the inputs and is not in inputs[1]" % (what, g.num), None, None
    bad = unsafe_boundary(c, lv1, in1)
    if bad:
        return "[prop] %s: (a') file %d stays in level %d with an older version of the largest user key of input file %d" % (what, bad[1], level + 1, bad[0]), None, None
    want1 = boundary_closure(c, lv1, [g for g in lv1 if intersects(c, g, h0[0], h0[1])])
    if [f.num for f in want1] != [f.num for f in in1]:
        return '[prop] %s: inputs[1] is %s, the overlapping files of level+1 with their boundary files are %s' % (what, fmt_nums(in1), fmt_nums(want1)), None, None
    top = imax(c, [large(f) for f in in0])
    cp = '%s:%d' % (proto.show_bytes(top[0]), top[1])
    if parts[3] != cp:
        return '[prop] %s: compact pointer %s is not the largest key of inputs[0] (%s)' % (what, parts[3], cp), None, None
    ha = uhull(c, in0 + in1)
    wantgp = [g for g in lv2 if intersects(c, g, ha[0], ha[1])]
    if [f.num for f in wantgp] != [f.num for f in gp]:
        return '[prop] %s: grandparents %s, the level+2 files overlapping the compaction are %s' % (what, fmt_nums(gp), fmt_nums(wantgp)), None, None
    triv = len(in0) == 1 and len(in1) == 0 and total(gp) <= 10 * mfs
    if parts[4] != ('1' if triv else '0'):
        return '[prop] %s: trivial-move flag %s, expected %d' % (what, parts[4], triv), None, None
    return None, in0, in1


def expansion_prop(c, mfs, v, level, base0, in0, in1, what):
    """in0 must contain the un-expanded choice; if it is larger the expansion must have been legitimate"""
    lv, lv1 = v[level], v[level + 1]
    have = {f.num for f in in0}
    for f in base0:
        if f.num not in have:
            return '[prop] %s: file %d of the initial choice (with its boundary files) is missing from inputs[0]' % (what, f.num)
    if len(in0) == len(base0):
        return None
    h = uhull(c, base0)
    base1 = boundary_closure(c, lv1, [g for g in lv1 if intersects(c, g, h[0], h[1])])
    if not base1:
        return '[prop] %s: inputs[0] was expanded although no level+1 file is involved' % what
    if len(in1) != len(base1):
        return '[prop] %s: expansion changed the number of level+1 files (%d -> %d)' % (what, len(base1), len(in1))
    if not total(in0) + total(in1) < 25 * mfs:
        return '[prop] %s: expanded compaction of %d bytes is not below 25 x max_file_size' % (what, total(in0) + total(in1))
    return None


# ---- prange
def case_range(rng, kind='valid'):
    c = rng.choice(CMPS)
    level = rng.choice([0, 0, 1, 1, 1, 2, 2, 3, 4, 5, 5, 6])
    v, alpha, mfs = gen_valid_version(rng, c, want_level=level if level < 6 else None)
    if level < 6 and rng.chance(1, 6):
        v[level + 1] = []         # candidates for a trivial move
    tags = ['prange-level0' if level == 0 else 'prange-level>0']
    if kind != 'valid':
        tags.append('broken:' + break_version(rng, c, v, alpha, mfs))
    if kind == 'inv':
        tags.append('inverted-file:' + invert_some(rng, c, v))
    a, b = goi_request_range(rng, c, v, alpha, level)
    if rng.chance(1, 3):
        a = b = None          # the whole level (what ldb_compact_range does level by level)
    bi, ei = wrap_ikey(rng, a), wrap_ikey(rng, b)
    if kind != 'inv' and level < 6:
        if level > 0 and rng.chance(1, 3):
            G = [f for f in v[level] if intersects(c, f, a, b)]
            if G:
                j = rng.below(len(G))
                if tune_to(rng, v, [G[j]], total(G[:j]), mfs):
                    tags.append('cut-tuned')
        elif rng.chance(1, 2):
            tune_setup(rng, c, mfs, v, lambda st, tr: sim_range(c, mfs, v, level, bi, ei, st, tr))
    st = []
    exp = sim_range(c, mfs, v, level, bi, ei, st)
    if kind != 'inv' and exp not in ('null', 'fault', 'inverted') and rng.chance(1, 2):
        p = exp.split(';')
        if p[1] == '.' and ',' not in p[0] and p[2] != '.':
            gpf = by_nums(v[level + 2], parse_nums(p[2]), 'tune')
            if len({f.num for f in gpf}) == len(gpf) and tune_to(rng, v, gpf, 0, 10 * mfs):
                st = []
                exp = sim_range(c, mfs, v, level, bi, ei, st)
    req = 'prange %s %s %d %d %s %s' % (c, fmt_version(v), mfs, level, fmt_ikey(bi), fmt_ikey(ei))
    oracles = [ref_oracle(exp)]
    if kind == 'valid' and range_ordered(c, a, b):
        def prop(resp):
            if resp == 'inverted':
                return '[prop] compact_range: no file is inverted'
            G = level0_closure(c, v[0], a, b) if level == 0 else [f for f in v[level] if intersects(c, f, a, b)]
            if not G:
                return None if resp == 'null' else '[prop] compact_range: no file of the level meets the range, expected null'
            if resp == 'null':
                return '[prop] compact_range: null although file %d meets the range' % G[0].num
            if level + 1 >= NLEVELS:
                return None if resp == 'fault' else '[prop] compact_range at the last level with inputs: expected the fault refusal'
            if resp == 'fault':
                return '[prop] compact_range: unexpected fault'
            why, in0, in1 = setup_prop(c, mfs, v, level, resp, 'compact_range')
            if why:
                return why
            if level == 0:
                P = G
            else:
                P, tot = [], 0
                for f in G:
                    P.append(f)
                    tot += f.size
                    if tot >= mfs:
                        break
            base0 = boundary_closure(c, v[level], P)
            return expansion_prop(c, mfs, v, level, base0, in0, in1, 'compact_range')
        oracles.insert(0, prop)
    suite = {'valid': 'pol-range', 'x': 'pol-range-x', 'inv': 'pol-inverted'}[kind]
    return mk(suite, req, tags + st, kind == 'valid', oracles)


# ---- ppickc
def case_pickc(rng, kind='valid'):
    c = rng.choice(CMPS)
    j = rng.below(20)
    sizelevel = seek = None
    want = rng.choice([0, 0, 1, 1, 1, 2, 2, 3, 4, 5])
    v, alpha, mfs = gen_valid_version(rng, c, want_level=want)
    if rng.chance(1, 6):
        v[want + 1] = []          # candidates for a trivial move
    tags = []
    if kind != 'valid':
        tags.append('broken:' + break_version(rng, c, v, alpha, mfs))
    if kind == 'inv':
        tags.append('inverted-file:' + invert_some(rng, c, v))
    if j < 10:
        sizelevel = want if rng.chance(9, 10) else rng.choice([6, 5, rng.below(7)])
    if j >= 8 and j < 19:
        cand = [l for l in range(NLEVELS) if v[l]]
        if cand:
            l = want if (v[want] and rng.chance(4, 5)) else rng.choice(cand)
            seek = (l, rng.choice(v[l]))
    cp = None
    if sizelevel is not None:
        k = rng.below(10)
        fs = v[sizelevel]
        if k < 5 and fs:
            f = rng.choice(fs)
            base = large(f) if rng.chance(3, 4) else small(f)
            cp = (base[0], max(0, min((1 << 64) - 1, base[1] + rng.choice([0, 0, 0, 1, -1, 256]))))
        elif k < 7:
            cp = (gen_ukey(rng, alpha), gen_packed(rng))
        elif k < 8 and fs:
            cp = large(fs[-1])          # wrap-around
    elif rng.chance(1, 3):
        cp = (gen_ukey(rng, alpha), gen_packed(rng))       # ignored
    seekfile = None
    if seek is not None:
        # the driver takes the first file of that level with the number
        seekfile = next(f for f in v[seek[0]] if f.num == seek[1].num)
        seek = (seek[0], seekfile)
    if kind != 'inv' and rng.chance(1, 2):
        tune_setup(rng, c, mfs, v, lambda st, tr: sim_pickc(c, mfs, v, sizelevel, seek, cp, st, tr))
        if seek is not None:
            seek = (seek[0], next(f for f in v[seek[0]] if f.num == seek[1].num))
    req = 'ppickc %s %s %d %s %s %s' % (c, fmt_version(v), mfs, '-' if sizelevel is None else str(sizelevel),
                                        '-' if seek is None else '%d:%d' % (seek[0], seek[1].num), fmt_ikey(cp))
    st = []
    exp = sim_pickc(c, mfs, v, sizelevel, seek, cp, st)
    # trivial-move threshold: put the grandparents on 10x now and then (sizes do not change which files are chosen here)
    if kind != 'inv' and exp not in ('null', 'fault', 'inverted') and rng.chance(2, 3):
        p = exp.split(';')
        lvl = int(p[0])
        if p[2] == '.' and ',' not in p[1] and p[3] != '.' and lvl + 2 < NLEVELS:
            gpf = by_nums(v[lvl + 2], parse_nums(p[3]), 'tune')
            if len({f.num for f in gpf}) == len(gpf) and tune_to(rng, v, gpf, 0, 10 * mfs):
                if seek is not None:
                    seek = (seek[0], next(f for f in v[seek[0]] if f.num == seek[1].num))
                req = 'ppickc %s %s %d %s %s %s' % (c, fmt_version(v), mfs, '-' if sizelevel is None else str(sizelevel),
                                                    '-' if seek is None else '%d:%d' % (seek[0], seek[1].num), fmt_ikey(cp))
                st = []
                exp = sim_pickc(c, mfs, v, sizelevel, seek, cp, st)
    oracles = [ref_oracle(exp)]
    if kind == 'valid':
        def prop(resp):
            if resp == 'inverted':
                return '[prop] pick_compaction: no file is inverted'
            if sizelevel is None and seek is None:
                return None if resp == 'null' else '[prop] pick_compaction: nothing to do, expected null'
            level = sizelevel if sizelevel is not None else seek[0]
            if level + 1 >= NLEVELS or (sizelevel is not None and not v[level]):
                return None if resp == 'fault' else '[prop] pick_compaction: expected the fault refusal'
            if resp in ('null', 'fault'):
                return '[prop] pick_compaction: unexpected %s' % resp
            lv_s, rest = resp.split(';', 1)
            if int(lv_s) != level:
                return '[prop] pick_compaction: level %s, expected %d' % (lv_s, level)
            why, in0, in1 = setup_prop(c, mfs, v, level, rest, 'pick_compaction')
            if why:
                return why
            if sizelevel is not None:
                after = [f for f in v[level] if cp is None or icmp(c, large(f), cp) > 0]
                seed = after[0] if after else v[level][0]
            else:
                seed = seek[1]
            P = level0_closure(c, v[0], seed.sk, seed.lk) if level == 0 else [seed]
            base0 = boundary_closure(c, v[level], P)
            return expansion_prop(c, mfs, v, level, base0, in0, in1, 'pick_compaction')
        oracles.insert(0, prop)
    suite = {'valid': 'pol-pickc', 'x': 'pol-pickc-x', 'inv': 'pol-inverted'}[kind]
    return mk(suite, req, tags + st, kind == 'valid', oracles)


# ---- hand-made shapes (the situations the mechanisms exist for)
def fixed_cases():
    out = []
    P = lambda s, t=1: s * 256 + t
    # split user key: f1.largest = (k,7), f2.smallest = (k,5), f3.smallest = (k,3): chain of three
    lv = [F(1, 10, b'a', P(9), b'k', P(7)), F(2, 10, b'k', P(5), b'k', P(4)), F(3, 10, b'k', P(3), b'm', P(1)), F(4, 10, b'n', P(3), b'p', P(1))]
    out.append(mk('pol-boundary', 'pboundary bw %s 1' % fmt_files(lv), ['pboundary', 'boundary-added', 'boundary-added>=2'], True,
                  [boundary_prop('bw', lv, [lv[0]]), ref_oracle('1,2,3')]))
    # level-0 chain listed backwards: widening `end` one file per pass
    l0 = [F(13, 10, b'e', P(5), b'g', P(5)), F(12, 10, b'c', P(5), b'e', P(5)), F(11, 10, b'a', P(5), b'c', P(5))]
    v = [l0] + [[] for _ in range(6)]
    out.append(mk('pol-goi', 'pgoi bw %s 0 61:1 61:1' % fmt_version(v), ['pgoi-level0', 'goi0-restart-end', 'goi0-restarts>=2'], True,
                  [goi_prop('bw', l0, True, b'a', b'a'), ref_oracle('13,12,11')]))
    l0f = list(reversed(l0))
    v = [l0f] + [[] for _ in range(6)]
    out.append(mk('pol-goi', 'pgoi bw %s 0 67:1 67:1' % fmt_version(v), ['pgoi-level0', 'goi0-restart-begin', 'goi0-restarts>=2'], True,
                  [goi_prop('bw', l0f, True, b'g', b'g'), ref_oracle('11,12,13')]))
    return out


# ------------------------------------------------------------------ malformed stream
def gen_malformed(rng, n):
    good_f = '1:10:61:1281:62:1281'
    good_v = '.|%s|.|.|.|.|.' % good_f
    pool = [
        'pfind bw %s 61' % good_f, 'pfind bw %s 61 1 1' % good_f, 'pfind xx %s 61 1' % good_f, 'pfind bw %s 6 1' % good_f,
        'pfind bw %s 6g 1' % good_f, 'pfind bw %s 61 18446744073709551616' % good_f, 'pfind bw %s 61 -1' % good_f,
        'pfind bw %s 61 x' % good_f, 'pfind bw %s 61 ' % good_f, 'pfind bw 1:10:61:1281:62 61 1', 'pfind bw 1:10:61:1281:62:1281:7 61 1',
        'pfind bw 9223372036854775808:10:61:1281:62:1281 61 1', 'pfind bw 1:1099511627776:61:1281:62:1281 61 1',
        'pfind bw 1:10:61:18446744073709551616:62:1281 61 1', 'pfind bw 1:10:61:1281:62:18446744073709551616 61 1',
        'pfind bw 1:10:6:1281:62:1281 61 1', 'pfind bw 1:10:61:1281:zz:1281 61 1', 'pfind bw %s,,%s 61 1' % (good_f, good_f),
        'pfind bw %s, 61 1' % good_f, 'pfind bw ,%s 61 1' % good_f, 'pfind bw a:10:61:1281:62:1281 61 1', 'pfind bw :10:61:1281:62:1281 61 1',
        'pfind bw 1::61:1281:62:1281 61 1', 'pfind bw 1:10:61::62:1281 61 1', 'pfind bw ' + ','.join([good_f] * 65) + ' 61 1',
        'pfind BW %s 61 1' % good_f, 'pfind  %s 61 1' % good_f,
        'poverlap bw 2 %s 61 62' % good_f, 'poverlap bw  %s 61 62' % good_f, 'poverlap bw 01 %s 61 62' % good_f, 'poverlap bw 1 %s 6 62' % good_f,
        'poverlap bw 1 %s 61 6x' % good_f, 'poverlap bw 1 %s 61' % good_f, 'poverlap bw 1 %s 61 62 63' % good_f, 'poverlap len 1 1:2 61 62',
        'pgoi bw %s 7 * *' % good_v, 'pgoi bw %s 1 * ' % good_v, 'pgoi bw %s x * *' % good_v, 'pgoi bw %s -1 * *' % good_v,
        'pgoi bw .|.|.|.|.|. 1 * *', 'pgoi bw .|.|.|.|.|.|.|. 1 * *', 'pgoi bw . 1 * *', 'pgoi bw %s 1 61 *' % good_v, 'pgoi bw %s 1 61:1:2 *' % good_v,
        'pgoi bw %s 1 * 61:' % good_v, 'pgoi bw %s 1 * 61:18446744073709551616' % good_v, 'pgoi bw %s 1 6:1 *' % good_v, 'pgoi bw %s 1 ** *' % good_v,
        'pgoi bw .|.|.|x|.|.|. 1 * *', 'pgoi bw %s 1 * *' % good_v.replace('|', ' ', 1), 'pgoi rev %s 1 *' % good_v,
        'ppick bw %s 100 * 62' % good_v, 'ppick bw %s 100 61 *' % good_v, 'ppick bw %s 4294967296 61 62' % good_v, 'ppick bw %s x 61 62' % good_v,
        'ppick bw %s  61 62' % good_v, 'ppick bw %s 100 61' % good_v, 'ppick bw %s 100 6 62' % good_v, 'ppick bw .|.|.|.|.|. 100 61 62',
        'ppick bw %s 100 61:1 62' % good_v,
        'pboundary bw %s 2' % good_f, 'pboundary bw %s 1,2' % good_f, 'pboundary bw %s x' % good_f, 'pboundary bw %s 1,' % good_f,
        'pboundary bw %s ,1' % good_f, 'pboundary bw %s 18446744073709551616' % good_f, 'pboundary bw %s' % good_f, 'pboundary bw %s 1 1' % good_f,
        'pboundary bw . 1', 'pboundary xx %s 1' % good_f, 'pboundary bw 1:10:62:1281:61:1281 2',
        'prange bw %s 100 7 * *' % good_v, 'prange bw %s 100 1 *' % good_v, 'prange bw %s 4294967296 1 * *' % good_v, 'prange bw %s 100 1 61 *' % good_v,
        'prange bw .|.|.|.|.|. 100 1 * *', 'prange bw .|.|.|.|.|.|.|. 100 1 * *', 'prange bw %s 100 1 * * *' % good_v, 'prange bw %s -100 1 * *' % good_v,
        'prange bw %s 100 1 61:x *' % good_v, 'prange bw %s 100 1 * 61:1:' % good_v, 'prange len %s 1e2 1 * *' % good_v,
        'ppickc bw %s 100 7 - *' % good_v, 'ppickc bw %s 100 1 1:2 *' % good_v, 'ppickc bw %s 100 - 1:2 *' % good_v, 'ppickc bw %s 100 - 2:1 *' % good_v,
        'ppickc bw %s 100 - 7:1 *' % good_v, 'ppickc bw %s 100 - 1 *' % good_v, 'ppickc bw %s 100 - 1:1:1 *' % good_v, 'ppickc bw %s 100 - 1:x *' % good_v,
        'ppickc bw %s 100 x - *' % good_v, 'ppickc bw %s 100 1 - 61' % good_v, 'ppickc bw %s 100 1 - ' % good_v, 'ppickc bw %s 100 1 -' % good_v,
        'ppickc bw %s 100  - *' % good_v, 'ppickc bw %s 100 - - 61:1:1' % good_v, 'ppickc bw %s 4294967296 1 - *' % good_v,
        'ppickc bw %s 100 - 1:18446744073709551616 *' % good_v, 'ppickc bw %s 100 * - *' % good_v, 'ppickc bw %s 100 - * *' % good_v,
        'pfind', 'ppickc', 'pgoi bw', 'policy', 'pfin bw . 61 1', 'pfindx bw . 61 1',
    ]
    cases = []

    def oracle(resp):
        return None if resp == 'bad-op' else 'expected bad-op'
    for i in range(n):
        if i < len(pool):
            req = pool[i]
        else:
            # damage a well-formed request
            c0 = rng.choice([case_find, case_overlap, case_goi, case_pick, case_boundary, case_range, case_pickc])(rng)
            fields = c0.req.split(' ')
            k = rng.below(6)
            if k == 0:
                fields.pop(rng.range(1, len(fields) - 1))
            elif k == 1:
                fields.insert(rng.range(1, len(fields)), rng.choice(['0', '*', '.', '61']))
            elif k == 2:
                fields[1] = rng.choice(['', 'b', 'bw ', 'bytewise', 'REV'])
            elif k == 3:
                j = next((j for j, f in enumerate(fields) if '|' in f), None)
                if j is None:
                    fields[0] = fields[0] + 'x'
                else:
                    fields[j] = fields[j] + '|.' if rng.chance(1, 2) else fields[j].split('|', 1)[1]
            elif k == 4:
                j = next((j for j, f in enumerate(fields) if ':' in f and f.count(':') >= 5), None)
                if j is None:
                    fields[0] = 'p' + fields[0]
                else:
                    fields[j] = rng.choice([fields[j].replace(':', ';', 1), fields[j] + ':1', fields[j].replace(':', ':x', 1), fields[j] + ','])
            else:
                fields[0] = rng.choice(['pfnd', 'PFIND', 'prang', 'ppickcc', 'pboundaries'])
            req = ' '.join(fields)
        cases.append(Case('pol-bad', req, oracle=oracle, meta={'tags': ['malformed'], 'valid': False}))
    return cases


# ------------------------------------------------------------------ entry point
def gen_policy(rng, n):
    cases = fixed_cases()
    nb = max(n // 16, 40)
    r = rng.fork('policy')
    plan = [
        (case_find, {}, 5), (case_find, {'valid': False}, 2),
        (case_overlap, {}, 6), (case_overlap, {'valid': False}, 2),
        (case_goi, {}, 12), (case_goi, {'valid': False}, 4),
        (case_pick, {}, 10), (case_pick, {'valid': False}, 3),
        (case_boundary, {}, 8), (case_boundary, {'kind': 'x'}, 2), (case_boundary, {'kind': 'inv'}, 1),
        (case_range, {}, 14), (case_range, {'kind': 'x'}, 4), (case_range, {'kind': 'inv'}, 1),
        (case_pickc, {}, 14), (case_pickc, {'kind': 'x'}, 4), (case_pickc, {'kind': 'inv'}, 1),
    ]
    tot = sum(w for _, _, w in plan)
    budget = max(n - nb - len(cases), 0)
    for fn, kw, w in plan:
        rr = r.fork(fn.__name__ + repr(sorted(kw.items())))
        for _ in range((budget * w + tot - 1) // tot):
            cases.append(fn(rr, **kw))
    cases += gen_malformed(rng.fork('bad'), nb)
    return cases


def distribution(cases):
    """tag counts (computed while generating, by re-playing the mechanism in Python)"""
    cnt = Counter()
    for c in cases:
        for t in set((c.meta or {}).get('tags', [])):
            cnt[t] += 1
    return cnt
