"""C16 — table files round-trip under every option and follow the standard format."""
import vlib, gens, gens_block, gens_filter, gens_snappy
from common import Case, lean_stage, run_cases, load_corpus
from vlib import Check, Rng

PID = 'C16'
THEOREMS = [
    'Lcdb.block_roundtrip', 'Lcdb.blockIter_is_cursor', 'Lcdb.blockIter_seek_first_ge', 'Lcdb.blockIter_first_next', 'Lcdb.blockIter_prev',
    'Lcdb.KeyProps.separator_contract', 'Lcdb.KeyProps.successor_contract', 'Lcdb.KeyProps.ikey_separator_contract', 'Lcdb.KeyProps.ikey_successor_contract',
    'Lcdb.KeyProps.cmp_lawful', 'Lcdb.bloom_no_false_negative', 'Lcdb.filter_covers_block', 'Lcdb.filter_covers_block_ifp',
    'Lcdb.Snappy.snappy_roundtrip', 'Lcdb.Snappy.decode_of_valid_toks', 'Lcdb.footer_roundtrip', 'Lcdb.handle_roundtrip', 'Lcdb.footer_length',
    'Lcdb.filterConsts_ok',
    'Lcdb.TableProps.build_wf', 'Lcdb.TableProps.wf_reads', 'Lcdb.TableProps.table_roundtrip', 'Lcdb.TableProps.decodeTableFile_wf', 'Lcdb.TableProps.readBlock_written',
]
IMPORTS = ['LcdbModel.Props.C16']
TARGETS = ['LcdbModel.Props.C16']
EXCLUDE = ['util/crc32c.c']


def table_part(chk, tier, rng, unit):
    import gens_table
    big = tier == 'thorough'
    n = 60 if not big else 300
    cases = (gens_table.gen_table_build(rng.fork('b'), n, big) + gens_table.gen_table_scan(rng.fork('s'), n, big) +
             gens_table.gen_table_ops(rng.fork('o'), n) + gens_table.gen_table_get(rng.fork('g'), n))
    run_cases(chk, cases, unit)


def run(tier):
    chk = Check(PID, tier)
    rng = Rng(chk.seed).fork(PID)
    unit = vlib.build_harness('unit', 'asan', exclude=EXCLUDE)
    lean_stage(chk, THEOREMS, IMPORTS, TARGETS)
    big = tier == 'thorough'
    cases = [Case('corpus', r) for r in load_corpus(PID)]
    cases += gens_block.gen_block_valid(rng.fork('block'), 500 if not big else 3000)
    cases += gens_filter.gen_bloom(rng.fork('bloom'), 150 if not big else 1000) + gens_filter.gen_filter_block(rng.fork('fb'), 150 if not big else 1000)
    cases += gens_filter.gen_handle_footer(rng.fork('hf'), 100 if not big else 2000) + gens_filter.gen_hash(rng.fork('hash'), 60 if not big else 1000)
    cases += gens_snappy.gen_snappy_enc(rng.fork('snappy'), 250 if not big else 1500, big)
    cases += gens.gen_ikey(rng.fork('ikey'), 150 if not big else 2000)
    cases += gens.separators_exhaustive([0, 1, 0xfe, 0xff], 3 if not big else 4)
    chk.rules.append('built blocks (0..400 entries, long shared prefixes, 0xFF runs, empty key, internal keys, restart interval 1..32) with iterator walks biased to direction changes; '
                     'bloom/filter blocks over 0..2000 keys, bits 1..20, offsets spanning several 2 KiB ranges; handles/footers; Snappy on random/periodic/mixed inputs around 64 KiB block '
                     'and literal-length thresholds; separator/successor on ALL pairs of strings up to length 3 (quick) / 4 (thorough) over {00,01,fe,ff} and random keys; '
                     'whole table files when the table slice is present; oracles independent of the model (Python reference decoders, sorted-list cursors); distinct = distinct (suite, response)')
    run_cases(chk, cases, unit)
    table_part(chk, tier, rng.fork('table'), unit)
    chk.assumptions += ['cache and mmap settings do not change bytes or answers (they are exercised by the whole-database histories of C01)']
    return chk.finish()


def replay(path):
    import json
    rp = json.load(open(path))
    unit = vlib.build_harness('unit', 'asan', exclude=EXCLUDE)
    print(vlib.serve(unit, [rp['request']], vlib.asan_env())[0])
    return 0
