"""Mechanism slices attached to the properties they support: for every property listed in PROP_SLICES the check also
(1) builds and audits the slice's property theorems (#print axioms), and (2) runs the slice's differential suite -- the
real C functions in the ASan+UBSan `unit` harness against the Lean model in `modeld`, plus the generators' own property
oracles.  Hooked into vlib.Check.finish (see `attach`), so every check gets it whatever driver module it uses."""
import importlib
import vlib
from vlib import Rng

P = 'Lcdb.Policy.'
W = 'Lcdb.WFile.'
S = 'Lcdb.Skiplist.'
L = 'Lcdb.LruCache.'

SLICES = {
    'policy': {
        'what': 'version_set.c file selection (find_file, some_file_overlaps_range, get_overlapping_inputs, pick_level_for_memtable_output, '
                'add_boundary_inputs, setup_other_inputs, compact_range, pick_compaction, is_trivial_move) on generated versions',
        'module': 'LcdbModel.Props.PolicyProps', 'gen': ('gens_policy', 'gen_policy'),
        'theorems': [P + t for t in ('findFile_in_bounds', 'findFile_eq_find', 'levelFile_eq_findFile', 'someFileOverlapsRange_iff',
                                     'getOverlappingInputs_spec', 'versionGoi_total', 'pickLevel_establishes_flush_clause', 'addBoundaryInputs_spec',
                                     'setupOtherInputs_establishes_contract', 'compactRange_establishes_contract',
                                     'pickCompaction_establishes_contract', 'pickCompaction_size_establishes_contract', 'pickCompaction_seek_establishes_contract')],
    },
    'wfile': {
        'what': 'buffered writable file (ldb_wfile_append/flush/sync/close), ldb_write_file, ldb_set_current_file, log record emission under '
                'scripted short writes / EINTR / errors of write, fsync, open, rename, close (libc interposed on the harness\'s own descriptors)',
        'module': 'LcdbModel.Props.WFileProps', 'gen': ('gens_wfile', 'gen_wfile'),
        'theorems': [W + t for t in ('osWrite_spec', 'no_fault_transparent', 'no_fault_after_flush', 'no_fault_after_sync', 'no_fault_after_close',
                                     'write_prefix_always', 'first_error_still_prefix', 'gap_implies_reported_error', 'after_failed_flush_gap',
                                     'emit_record_pushed', 'emit_record_pushed_run', 'append_fits_no_syscall', 'sync_order', 'sync_covers_everything',
                                     'setCurrentFile_atomic', 'writeFile_synced', 'no_fault_all_ok', 'no_fault_sync_covers', 'ok_run_abstracts_write_then_sync')],
    },
    'skiplist': {
        'what': 'skiplist.c + memtable.c: real memtables (arena, skiplist, PRNG heights) built by ldb_memtable_add, structural dumps of every level, '
                'ldb_memtable_get, memtable iterators, entry encoding',
        'module': 'LcdbModel.Props.SkiplistProps', 'gen': ('gens_skiplist', 'gen_skiplist'),
        'theorems': [S + t for t in ('insert_refines_ordInsert', 'insert_total', 'insert_dup_faults', 'insert_refines_runInsert', 'add_refines_runInsert',
                                     'levels_nested_sorted', 'search_fuel_suffices', 'findGreaterOrEqual_spec', 'findLessThan_spec', 'findLast_spec',
                                     'iter_is_cursor', 'memtable_entry_roundtrip', 'memtableGet_eq_runGet', 'rand_never_zero', 'randomHeight_range')],
    },
}

SLICES['cache'] = {
    'what': 'util/cache.c: the sharded LRU cache driven through its public API (insert / lookup / release / erase / prune / usage, a deleter that '
            'logs every freed value, capacities 0..8 per shard, overwrite- / erase- / prune-while-pinned) and its handle table (chains, resize)',
    'module': 'LcdbModel.Props.LruCacheProps', 'gen': ('gens_cache', 'gen_cache'),
    'theorems': [L + t for t in ('run_total', 'run_from_empty', 'latest_spec', 'lookup_coherent', 'lookup_out_coherent', 'pinned_never_deleted', 'deleted_once',
                                 'shutdown_deletes_all', 'usage_is_sum', 'capacity_respected', 'capacity_preserved', 'lru_order', 'release_appends',
                                 'lookup_unlinks', 'prune_deletes_lru', 'invariants', 'htable_is_map', 'shardOf_lt', 'cache_insert_local', 'newId_fresh',
                                 'cache_shard_run', 'cache_inv', 'cache_lookup_coherent', 'cache_pinned_never_deleted', 'cache_deleted_once', 'cache_usage_is_sum')],
}

SLICES['skiplist-iter'] = {
    'what': 'no suite of its own (the skiplist suite drives the iterators): DBIter over the real memtable iterator',
    'module': 'LcdbModel.Props.SkiplistIterProps', 'gen': None,
    'theorems': [S + t for t in ('dbiter_is_map_cursor_bounded', 'memiter_simOn', 'dbiter_over_holds', 'dbiter_over_memtable')],
}

SLICES['capstone'] = {
    'what': 'no suite of its own: joins the policy and compaction slices (both tied to the code by their own suites and by tracecheck)',
    'module': 'LcdbModel.Props.CompactionCapstone', 'gen': None,
    'theorems': ['Lcdb.Compaction.' + t for t in ('chunks_fileOk', 'outputs_fit_gap', 'mechanism_full_stepOk', 'mechanism_full_preserves')],
}

SLICES['end-to-end'] = {
    'what': 'no suite of its own: the capstone stated from the public entry points (pick_compaction, compact_range, the flush of the immutable memtable)',
    'module': 'LcdbModel.Props.MechanismEndToEnd', 'gen': None,
    'theorems': ['Lcdb.Compaction.' + t for t in ('pickCompaction_full_preserves', 'compactRange_full_preserves', 'flush_full_preserves', 'flush0_full_preserves')],
}

# property -> slices (quick size, thorough size)
PROP_SLICES = {
    'C01': [('policy', 700, 20000), ('skiplist', 700, 20000), ('cache', 700, 20000), ('capstone', 0, 0), ('end-to-end', 0, 0)],
    'C10': [('cache', 1200, 40000), ('skiplist', 600, 20000)],
    'C18': [('cache', 600, 20000)],
    'C14': [('policy', 1500, 60000), ('capstone', 0, 0), ('end-to-end', 0, 0)],
    'C06': [('capstone', 0, 0), ('end-to-end', 0, 0)],
    'C07': [('skiplist', 900, 30000), ('skiplist-iter', 0, 0)],
    'C02': [('wfile', 900, 30000)],
    'C03': [('wfile', 700, 20000)],
    'C12': [('wfile', 1500, 60000)],
    'C17': [('wfile', 600, 20000)],
}


def register(name, spec, props):
    SLICES[name] = spec
    for pid, q, t in props:
        PROP_SLICES.setdefault(pid, []).append((name, q, t))


def attach(chk):
    """called at the start of Check.finish"""
    todo = PROP_SLICES.get(chk.pid, [])
    if not todo or getattr(chk, '_slices_done', False):
        return
    chk._slices_done = True
    from common import Case, run_cases
    unit = None
    for name, nq, nt in todo:
        sp = SLICES[name]
        res = vlib.lean_build((sp['module'], 'modeld'))
        if not res.ok:
            excerpt = [l for l in res.log.split('\n') if 'error' in l][:4]
            chk.oblige('lean-build:' + sp['module'], False, ' | '.join(excerpt)[:600])
        ax = vlib.axioms_audit(sp['theorems'], [sp['module']])
        for t in sp['theorems']:
            ok, detail = ax.get(t, (False, 'not audited'))
            chk.oblige('theorem:' + t, ok, detail)
        if not sp.get('gen'):
            continue
        if unit is None:
            unit = vlib.build_harness('unit', 'asan', exclude=['util/crc32c.c'])
        mod = importlib.import_module(sp['gen'][0])
        n = nq if chk.tier == 'quick' else nt
        cases = getattr(mod, sp['gen'][1])(Rng(chk.seed).fork(chk.pid + ':' + name), n)
        chk.rules.append('slice %s: %s; %d generated requests answered by the real C code and by the Lean model, compared response by response, '
                         'plus the generator\'s property oracles' % (name, sp['what'], len(cases)))
        run_cases(chk, cases, unit)
