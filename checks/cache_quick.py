#!/usr/bin/env python3
"""Differential run of the LRU-cache slice (src/util/cache.c): C harness (ASan/UBSan, NDEBUG) vs. Lean
model, plus the property oracles of gens_cache.py, plus the model-only `lrux` stream (client errors
that are never sent to C) judged by a Python oracle.
usage: cache_quick.py [seed [ncases]]   (lake build first)
CACHE_ISOLATE=<seconds> (set by cache_mutants.py): the harness is fed one request at a time, its stdout a
pseudo-terminal, with that timeout per request, so that a crash / hang of a mutated cache.c is attributed to
exactly the request that caused it (the harness does not flush stdout per line: in batch mode a crash loses
the buffered answers of the requests before it and a hang costs the whole batch timeout)."""
import os, select, subprocess, sys, tempfile, time
from collections import Counter
HERE = os.path.dirname(os.path.abspath(__file__))
sys.path.insert(0, os.path.join(os.path.dirname(HERE), 'tools'))
sys.path.insert(0, HERE)
import vlib, gens_cache
from vlib import Rng, Check
from common import run_cases


class Lockstep:
    """the harness with stdout on a pseudo-terminal (so stdio flushes every line), fed one request at a time"""

    def __init__(self, binary, env):
        import pty, tty
        self.m, sl = pty.openpty()
        tty.setraw(sl)
        self.err = tempfile.TemporaryFile()
        self.p = subprocess.Popen([binary], stdin=subprocess.PIPE, stdout=sl, stderr=self.err, env=env)
        os.close(sl)
        self.buf = b''

    def ask(self, line, T):
        """-> response | None (died / hung; the process is gone afterwards)"""
        try:
            self.p.stdin.write(line.encode() + b'\n')
            self.p.stdin.flush()
        except OSError:
            return None
        deadline = time.time() + T
        while b'\n' not in self.buf:
            left = deadline - time.time()
            if left <= 0:
                return None
            r, _, _ = select.select([self.m], [], [], min(left, 0.5))
            if not r:
                if self.p.poll() is not None:
                    return None
                continue
            try:
                d = os.read(self.m, 1 << 16)
            except OSError:
                return None
            if not d:
                return None
            self.buf += d
        resp, _, self.buf = self.buf.partition(b'\n')
        return resp.decode(errors='replace')

    def close(self):
        """-> first line of the sanitizer report, if any"""
        hung = self.p.poll() is None
        try:
            self.p.stdin.close()
        except OSError:
            pass
        if hung:
            self.p.kill()
        self.p.wait()
        os.close(self.m)
        self.err.seek(0)
        txt = self.err.read().decode(errors='replace')
        self.err.close()
        for e in txt.split('\n'):
            if 'ERROR' in e or 'runtime error' in e or 'Assertion' in e:
                return e.strip()[:200]
        return 'TIMEOUT' if hung else 'exit status %s' % self.p.returncode


def isolate(T, maxhangs=8):
    orig = vlib.serve

    def serve(binary, lines, env=None, timeout=600, fault_label='fault'):
        if binary == vlib.modeld_path():
            return orig(binary, lines, env, timeout, fault_label)
        res = []
        hangs = 0
        proc = None
        for l in lines:
            if hangs >= maxhangs:
                res.append('%s: TIMEOUT (not run: %d requests of this chunk hung already)' % (fault_label, hangs))
                continue
            r, why = None, 'harness does not start'
            for attempt in (0, 1):      # a timeout is believed only when a fresh process repeats it (machine load)
                if proc is None:
                    proc = Lockstep(binary, env)
                    if proc.ask('lruhash -', 120) is None:      # absorbs the start-up time of the sanitizer runtime
                        proc.close()
                        proc = None
                        continue
                r = proc.ask(l, T)
                if r is not None:
                    break
                why = proc.close()
                proc = None
                if why != 'TIMEOUT':
                    break
            if r is None:
                hangs += why == 'TIMEOUT'
                res.append('%s: %s' % (fault_label, why))
            else:
                res.append(r)
        if proc is not None:
            proc.close()
        return res
    vlib.serve = serve


def main():
    if os.environ.get('CACHE_ISOLATE'):
        isolate(float(os.environ['CACHE_ISOLATE']))
    seed = int(sys.argv[1]) if len(sys.argv) > 1 else 1
    n = int(sys.argv[2]) if len(sys.argv) > 2 else 3000
    rng = Rng(seed)
    cases = gens_cache.gen_cache(rng, n)
    unit = vlib.build_harness('unit', 'asan', exclude=['util/crc32c.c'])
    chk = Check('CACHE', 'quick')
    t = time.time()
    # the Python ldb_hash (shard pools of the generators) against both sides
    ht = gens_cache.gen_hash_selftest(rng.fork('hash'), 300)
    _, hc, hm = vlib.correspond([r for r, _ in ht], unit)
    hbad = [(r, w, a, b) for (r, w), a, b in zip(ht, hc, hm) if not (a == b == w)]
    for x in hbad[:5]:
        print('HASH SELF-TEST request=%s python=%s implementation=%s model=%s' % x)
    c_out, m_out = run_cases(chk, cases, unit)
    bad = [o for o in chk.obligations if not o[1]]
    for o in bad:
        print('DISAGREEMENT', o)
    ndis = sum(1 for a, b in zip(c_out, m_out) if a != b)
    # run_cases does not consult the oracle on a bad-op answer: bad-op exactly in the malformed suite
    viol = [(v[0], v[1].get('request', '')) for v in chk.violations]
    for c, r in zip(cases, c_out):
        if (r == 'bad-op') != (c.suite == 'lc-malformed') and not (r is not None and r.startswith('fault')):
            viol.append(('%s: answer %s' % (c.suite, str(r)[:80]), c.req))
    for v in viol[:10]:
        print('ORACLE VIOLATION', v[0][:600], v[1][:1500])
    # model-only stream
    nx = max(n // 6, 1)
    xs = gens_cache.gen_lrux(rng.fork('lrux'), nx)
    x_out = vlib.serve_parallel(vlib.modeld_path(), [r for r, _ in xs], None)
    xviol = []
    for (r, orc), o in zip(xs, x_out):
        why = orc(o)
        if why:
            xviol.append((why, r))
    for v in xviol[:10]:
        print('LRUX VIOLATION', v[0][:600], v[1][:1500])
    for s in sorted(gens_cache.EVENTS):
        print('events %-18s %s' % (s, ', '.join('%s %d' % kv for kv in sorted(gens_cache.EVENTS[s].items()))))
    nops = sum(r.count(';') + 1 for r in c_out if r and r not in ('bad-op', 'misuse'))
    isf = lambda r: r is not None and r.startswith('fault')
    ndis_nf = sum(1 for a, b in zip(c_out, m_out) if a != b and not isf(a))
    nviol_nf = sum(1 for v in viol if 'implementation faulted' not in v[0])
    print('seed %d: %d cases %s; disagreements %d (suites %d); oracle violations %d; C faults %d (of the requests that did not fault: disagreements %d, oracle violations %d); model faults %d; bad-op %d; misuse %d; '
          'distinct responses %d; op results %d; hash self-test %d/%d; lrux (model only) %d cases, %d faulting, %d distinct, violations %d; %.1fs'
          % (seed, len(cases), dict(Counter(c.suite for c in cases)), ndis, len(bad), len(viol),
             sum(1 for r in c_out if isf(r)), ndis_nf, nviol_nf, sum(1 for r in m_out if r is None or 'fault' in r),
             sum(1 for r in c_out if r == 'bad-op'), sum(1 for r in c_out if r == 'misuse'), len(set(c_out)), nops,
             len(ht) - len(hbad), len(ht), len(xs), sum(1 for o in x_out if o and o.endswith('fault')), len(set(x_out)), len(xviol),
             time.time() - t))
    return 1 if ndis or bad or viol or xviol or hbad else 0


if __name__ == '__main__':
    sys.exit(main())
