"""History generators for the workload harness (harness/wl.c): scenario families aimed at rare layouts."""
import proto


def opt_sets(rng, tier):
    sets = [
        'wbuf=65536',
        'wbuf=65536 block=1024 restart=1 filter=10',
        'wbuf=65536 comp=1 block=4096 restart=16 filter=3 cache=0',
        'wbuf=65536 mmap=0 block=2048 restart=4 maxopen=64 cache=4096',
        'wbuf=65536 cmp=rev filter=12',
        'wbuf=65536 cmp=len comp=1 block=16384',
        'wbuf=65536 reuse=1',
        'wbuf=65536 paranoid=1 filter=1 block=65536 restart=32',
        'wbuf=131072 maxfile=1048576 comp=1',
        'wbuf=65536 cmp=ci',
        'wbuf=65536 cmp=ci comp=1 block=2048',
    ]
    return sets


class Hist:
    def __init__(self, rng, dbdir, opts, nkeys):
        self.rng = rng
        self.lines = []
        self.dir = dbdir
        self.opts = opts
        self.keys = []
        shapes = rng.below(4)
        self.ci = 'cmp=ci' in opts
        if self.ci:
            shapes = rng.below(2)      # keys made of letters: every key has many spellings under the case-folding comparator
        for i in range(nkeys):
            if shapes == 0:
                k = b'k%03d' % i
            elif shapes == 1:
                k = b'key-with-long-shared-prefix-%02d' % i
            elif shapes == 2:
                k = bytes([0xff] * (i % 3)) + b'%c' % (97 + i % 26) + bytes([i % 256]) * (i % 4)
            else:
                k = [b'', b'a', b'aa', b'ab', b'b', b'\x00', b'\xff', b'\xff\xff'][i % 8] + (b'%d' % (i // 8) if i >= 8 else b'')
            if k not in self.keys:
                self.keys.append(k)
        self.snaps = {}
        self.nsnap = 0
        self.iters = {}
        self.val_seed = rng.below(1 << 30)

    def emit(self, s):
        self.lines.append(s)

    def spell(self, k):
        if not self.ci:
            return k
        return bytes((c - 32 if 97 <= c <= 122 and self.rng.chance(1, 2) else c) for c in k)

    def key(self):
        return self.spell(self.rng.choice(self.keys))

    def val(self, small=False):
        r = self.rng
        self.val_seed += 1
        k = r.below(20)
        if small or k < 4:
            n = r.below(40)
        elif k < 14:
            n = r.range(2000, 30000)
        elif k < 18:
            n = r.range(30000, 120000)
        elif k < 19:
            n = r.range(300000, 1300000)
        else:
            n = 0
        if n == 0:
            return '-'
        if r.chance(1, 4):
            return '%%%d~%d~%d' % (self.val_seed, n, r.range(1, 100))
        return '@%d~%d' % (self.val_seed, n)

    def open(self):
        self.emit('open %s %s' % (self.dir, self.opts))

    def reopen(self):
        self.snaps = {}
        self.iters = {}
        self.emit('close')
        self.open()

    def write_some(self, n, small=False):
        r = self.rng
        for _ in range(n):
            k = r.below(10)
            sync = ' sync' if r.chance(1, 6) else ''
            if k < 6:
                self.emit('put %s %s%s' % (proto.arg(self.key()), self.val(small), sync))
            elif k < 8:
                self.emit('del %s%s' % (proto.arg(self.key()), sync))
            else:
                ops = []
                for _ in range(r.range(1, 6)):
                    if r.chance(3, 4):
                        ops.append('p:%s:%s' % (proto.arg(self.key()), self.val(small)))
                    else:
                        ops.append('d:%s' % proto.arg(self.key()))
                self.emit('batch %s%s' % (','.join(ops), sync))

    def read_all(self, with_snaps=True, sample=None):
        ks = list(self.keys)
        if sample and len(ks) > sample:
            ks = [self.rng.choice(ks) for _ in range(sample)]
        # absent neighbours
        extra = [k + b'\x00' for k in ks[:3]] + [k[:-1] for k in ks[:3] if k]
        for k in ks + extra:
            k = self.spell(k)
            self.emit('get %s' % proto.arg(k))
            if with_snaps:
                for sid in list(self.snaps):
                    if self.rng.chance(1, 2):
                        self.emit('get %s %d' % (proto.arg(k), sid))

    def snap(self):
        if len(self.snaps) < 8:
            sid = self.nsnap
            self.nsnap += 1
            self.snaps[sid] = True
            self.emit('snap %d' % sid)

    def iter_walk(self, n):
        r = self.rng
        ops = [r.choice(['F', 'L', 'S:%s' % proto.arg(self.key())])]
        for _ in range(n):
            k = r.below(12)
            if k < 4:
                ops.append('N')
            elif k < 8:
                ops.append('P')
            elif k < 9:
                ops.append(r.choice(['F', 'L']))
            else:
                t = r.choice([self.key(), self.key() + b'\x00', self.key()[:-1], b'', b'\xff\xff\xff'])
                ops.append('%s:%s' % (r.choice(['S', 'GE', 'GT', 'LE', 'LT']), proto.arg(t)))
        sid = '-'
        if self.snaps and r.chance(1, 2):
            sid = str(r.choice(sorted(self.snaps)))
        self.emit('iter %s %s' % (sid, ','.join(ops)))

    def walk_ops(self, n):
        r = self.rng
        ops = [r.choice(['F', 'L', 'S:%s' % proto.arg(self.key())])]
        for _ in range(n):
            k = r.below(12)
            if k < 4:
                ops.append('N')
            elif k < 8:
                ops.append('P')
            elif k < 9:
                ops.append(r.choice(['F', 'L']))
            else:
                t = r.choice([self.key(), self.key() + b'\x00', self.key()[:-1], b'', b'\xff\xff\xff'])
                ops.append('%s:%s' % (r.choice(['S', 'GE', 'GT', 'LE', 'LT']), proto.arg(t)))
        return ','.join(ops)

    def live_iter(self):
        """open, use or close a long-lived iterator (it pins its version across later flushes and compactions)"""
        r = self.rng
        if self.iters and r.chance(1, 4):
            i = r.choice(sorted(self.iters))
            del self.iters[i]
            self.emit('iclose %d' % i)
        elif len(self.iters) < 3 and (not self.iters or r.chance(1, 3)):
            i = min(set(range(16)) - set(self.iters))
            self.iters[i] = True
            if self.snaps and r.chance(1, 3):
                self.emit('iopen %d %d' % (i, r.choice(sorted(self.snaps))))
            else:
                self.emit('iopen %d' % i)
            self.emit('iop %d %s' % (i, self.walk_ops(r.range(2, 8))))
        else:
            i = r.choice(sorted(self.iters))
            self.emit('iop %d %s' % (i, self.walk_ops(r.range(3, 15))))

    def rel(self):
        # snapshots used by a live iterator stay (releasing is legal, but keep the script simple)
        if self.snaps:
            sid = self.rng.choice(sorted(self.snaps))
            del self.snaps[sid]
            self.emit('rel %d' % sid)

    def structural(self):
        r = self.rng
        k = r.below(10)
        if k < 3:
            self.emit('flushmem')
        elif k < 7:
            lvl = r.below(6)
            if r.chance(1, 2):
                self.emit('compact %d * *' % lvl)
            else:
                a, b = self.key(), self.key()
                self.emit('compact %d %s %s' % (lvl, proto.arg(a), proto.arg(b)))
        elif k < 8:
            self.emit('compactall')
        else:
            self.reopen()
        self.emit('ls')


def family_random(rng, dbdir, opts, nops):
    h = Hist(rng, dbdir, opts, rng.choice([6, 20, 45]))
    h.open()
    for _ in range(nops):
        k = rng.below(20)
        if k < 11:
            h.write_some(rng.range(1, 5))
        elif k < 13:
            h.structural()
            h.read_all(sample=12)
        elif k < 15:
            h.snap()
        elif k < 16:
            h.rel()
        elif k < 17:
            h.iter_walk(rng.range(3, 25))
        elif k < 19:
            h.live_iter()
        else:
            h.read_all(sample=8)
    for i in sorted(h.iters):
        h.emit('iop %d %s' % (i, h.walk_ops(12)))
    h.read_all()
    h.iter_walk(30)
    h.emit('ls')
    h.emit('close')
    return h.lines


def family_snapshot_chain(rng, dbdir, opts, nops):
    """one user key overwritten under live snapshots, so its versions span several files of a level (issue-320 shape)"""
    h = Hist(rng, dbdir, opts, 5)
    h.open()
    hot = h.keys[:2]
    for i in range(nops):
        k = rng.choice(hot) if rng.chance(3, 4) else h.key()
        h.emit('put %s %s' % (proto.arg(k), h.val() if rng.chance(3, 4) else h.val(True)))
        if rng.chance(1, 3):
            h.snap()
        if rng.chance(1, 8):
            h.rel()
        if rng.chance(1, 6):
            h.emit('flushmem')
        if rng.chance(1, 7):
            h.emit('compact %d * *' % rng.below(4))
            h.read_all()
        if rng.chance(1, 10):
            h.emit('del %s' % proto.arg(rng.choice(hot)))
    h.emit('compactall')
    h.read_all()
    h.iter_walk(20)
    h.emit('ls')
    h.emit('close')
    return h.lines


def family_tombstones(rng, dbdir, opts, nops):
    """values pushed deep, then deleted/overwritten above, partial compactions in between"""
    h = Hist(rng, dbdir, opts, 12)
    h.open()
    for k in h.keys:
        h.emit('put %s %s' % (proto.arg(k), h.val()))
    h.emit('flushmem')
    for lvl in range(rng.range(1, 4)):
        h.emit('compact %d * *' % lvl)
    h.read_all()
    for i in range(nops):
        k = h.key()
        if rng.chance(1, 2):
            h.emit('del %s' % proto.arg(k))
        else:
            h.emit('put %s %s' % (proto.arg(k), h.val()))
        if rng.chance(1, 4):
            h.snap()
        if rng.chance(1, 5):
            h.emit('flushmem')
            h.read_all(sample=6)
        if rng.chance(1, 6):
            a, b = h.key(), h.key()
            h.emit('compact %d %s %s' % (rng.below(5), proto.arg(a), proto.arg(b)))
            h.read_all(sample=6)
        if rng.chance(1, 12):
            h.rel()
        if rng.chance(1, 15):
            h.reopen()
    h.read_all()
    h.iter_walk(25)
    h.emit('ls')
    h.emit('close')
    return h.lines


def family_disjoint(rng, dbdir, opts, nops):
    """disjoint key ranges per memtable so that flushes land below level 0; then overlapping writes"""
    h = Hist(rng, dbdir, opts, 40)
    h.open()
    ks = sorted(h.keys)
    step = max(1, len(ks) // 6)
    for i in range(0, len(ks), step):
        for k in ks[i:i + step]:
            h.emit('put %s %s' % (proto.arg(k), h.val()))
        h.emit('flushmem')
    h.read_all(sample=10)
    for _ in range(nops):
        h.write_some(rng.range(1, 4))
        if rng.chance(1, 5):
            h.structural()
            h.read_all(sample=8)
        if rng.chance(1, 6):
            h.snap()
        if rng.chance(1, 9):
            h.iter_walk(12)
    h.read_all()
    h.emit('ls')
    h.emit('close')
    return h.lines


def family_l0chain(rng, dbdir, opts, nops):
    """several overlapping level-0 files that form chains (a later file reaches below/above an earlier one), then manual
    compactions of level 0 over sub-ranges: the overlap collection has to grow the range in both directions"""
    h = Hist(rng, dbdir, opts, rng.choice([12, 20]))
    h.open()
    ks = sorted(h.keys)
    # a base in level 1 under the whole key space, so that later flushes stay in level 0
    for k in ks:
        h.emit('put %s %s' % (proto.arg(k), h.val(True)))
    h.emit('flushmem')
    h.emit('compact 0 * *')
    n = len(ks)
    for _ in range(max(3, nops // 6)):
        # A = [a0..a1] and X = [x0..x1] with a0 < x0 <= a1 < x1: X reaches back into A and beyond it
        a0 = rng.below(max(1, n - 6))
        a1 = min(n - 2, a0 + rng.range(1, 3))
        x0 = rng.range(a0 + 1, a1)
        x1 = min(n - 1, a1 + rng.range(1, 3))
        a_older = rng.chance(2, 3)
        wins = [(a0, a1), (x0, x1)] if a_older else [(x0, x1), (a0, a1)]
        if rng.chance(2, 3):
            # no level-1 file under the range that will be compacted (only a narrow one under A's first key keeps the
            # flushes in level 0): otherwise the expansion over the level-1 range collects the whole chain anyway
            h.emit('compact 0 * *')
            h.emit('compact 1 * *')
            h.emit('put %s %s' % (proto.arg(ks[a0]), h.val(True)))
            h.emit('flushmem')
        if rng.chance(1, 3):
            c0 = rng.below(n - 1)
            wins.insert(rng.below(3), (c0, min(n - 1, c0 + rng.range(0, 2))))
        for (a, b) in wins:
            for k in ks[a:b + 1]:
                if rng.chance(4, 5):
                    if rng.chance(1, 5):
                        h.emit('del %s' % proto.arg(k))
                    else:
                        h.emit('put %s %s' % (proto.arg(k), h.val(True)))
            h.emit('put %s %s' % (proto.arg(ks[a]), h.val(True)))
            h.emit('put %s %s' % (proto.arg(ks[b]), h.val(True)))
            h.emit('flushmem')
        # compact a sub-range that touches only part of the chain: the part of X above A when A is the older file
        if a_older or rng.chance(1, 2):
            i = rng.range(a1 + 1, x1)
            j = rng.range(i, x1)
        else:
            i = rng.range(a0, x1)
            j = rng.range(i, x1)
        h.emit('ver')
        h.emit('compact 0 %s %s' % (proto.arg(ks[i]), proto.arg(ks[j])))
        h.read_all()
        if rng.chance(1, 3):
            h.snap()
        if rng.chance(1, 4):
            h.iter_walk(10)
        if rng.chance(1, 5):
            h.emit('compact 0 * *')
    h.read_all()
    h.emit('ls')
    h.emit('close')
    return h.lines


def family_splitkey(rng, dbdir, opts, nops):
    """one user key whose versions (pinned by snapshots, values >= max_file_size) are cut over adjacent files of a level >= 1,
    the first of them shared with a smaller key; then compactions of a neighbouring range whose expansion pulls that first
    file in: the boundary file holding the older versions has to come along"""
    opts = rng.choice(['wbuf=65536 maxfile=1048576', 'wbuf=65536 maxfile=1048576 comp=1', 'wbuf=65536 maxfile=1048576 cmp=rev'])
    h = Hist(rng, dbdir, opts, 12)
    if opts.endswith('cmp=rev'):
        h.keys = [b'k%03d' % i for i in range(12)]
    h.open()
    ks = sorted(h.keys, reverse=opts.endswith('cmp=rev'))
    big = lambda: '@%d~%d' % (rng.below(1 << 30), rng.range(1060000, 1200000))
    rounds = max(1, nops // 20)
    for _ in range(rounds):
        j = rng.range(3, len(ks) - 3)          # ks[j] shares a file with the first version of the hot key ks[j+1]
        hot = ks[j + 1]
        # wide file in level 3: [ks[0] .. ks[j]]
        h.emit('put %s %s' % (proto.arg(ks[0]), h.val(True)))
        h.emit('put %s %s' % (proto.arg(ks[j]), h.val(True)))
        h.emit('flushmem')
        for lvl in (0, 1, 2):
            h.emit('compact %d * *' % lvl)
        # versions of the hot key pinned by snapshots, plus ks[j], merged into level 2: [ks[j], hot@newest] [hot@older] ...
        for v in range(rng.range(1, 3)):
            h.emit('put %s %s' % (proto.arg(hot), big()))
            h.snap()
        h.emit('put %s %s' % (proto.arg(ks[j]), h.val(True)))     # same memtable as the newest version: one file
        h.emit('put %s %s' % (proto.arg(hot), big()))
        h.emit('flushmem')
        h.emit('compact 0 * *')
        h.emit('compact 1 * *')
        h.emit('ver')
        # a small file next to them (it lands in level 2 as well), then compact just its range: the level-3 file below
        # widens the range up to ks[j] and the expansion pulls in the file that starts at ks[j]
        a = rng.range(1, j - 1)
        h.emit('put %s %s' % (proto.arg(ks[a]), h.val(True)))
        h.emit('put %s %s' % (proto.arg(ks[j - 1]), h.val(True)))
        h.emit('flushmem')
        h.emit('ver')
        h.emit('compact %d %s %s' % (rng.choice([2, 2, 1]), proto.arg(ks[a]), proto.arg(ks[j - 1])))
        h.read_all()
        if rng.chance(1, 2):
            h.rel()
        h.read_all()
        h.iter_walk(8)
    h.emit('compactall')
    h.read_all()
    h.emit('ls')
    h.emit('close')
    return h.lines


def family_manifest_growth(rng, dbdir, opts, nops):
    """a MANIFEST that is reused across reopens (reuse_logs) and grows past several 32 KiB log blocks: hundreds of small
    edits, reopens at positions that are not block-aligned, then a final replay"""
    opts = 'wbuf=65536 reuse=1'
    h = Hist(rng, dbdir, opts, 8)
    h.open()
    total = 300 + rng.below(120)
    nextre = rng.range(20, 120)
    for i in range(total):
        h.val_seed += 1
        h.emit('put %s @%d~%d' % (proto.arg(h.key()), h.val_seed, rng.range(1, 40)))
        h.emit('flushmem')
        if i == nextre:
            h.reopen()
            nextre += rng.range(60, 200)
        if i % 97 == 96:
            h.read_all(with_snaps=False, sample=3)
    h.reopen()
    h.read_all(with_snaps=False)
    h.emit('ls')
    h.emit('close')
    return h.lines


FAMILIES_EXTRA = [('manifest-growth', family_manifest_growth)]


def family_deep(rng, dbdir, opts, nops):
    """data pushed level by level down to the deepest level (manual compactions of every level in turn), newer data above
    it, directory listings and reads after each step, reopen"""
    h = Hist(rng, dbdir, opts, rng.choice([6, 14]))
    h.open()
    for rnd in range(rng.range(1, 3)):
        for k in h.keys:
            if rng.chance(3, 4):
                h.emit('put %s %s' % (proto.arg(h.spell(k)), h.val(True)))
        h.emit('flushmem')
        bottom = rng.choice([6, 6, 5, 4])
        for lvl in range(0, bottom):
            h.emit('compact %d * *' % lvl)
            if rng.chance(1, 3):
                h.emit('ls')
        h.emit('ls')
        h.read_all(sample=6)
        if rng.chance(1, 2):
            h.snap()
        h.write_some(rng.range(1, 4), small=True)
        if rng.chance(1, 2):
            h.reopen()
            h.emit('ls')
            h.read_all(sample=6)
    h.iter_walk(12)
    h.read_all()
    h.emit('ls')
    h.emit('close')
    return h.lines


def family_casefold(rng, dbdir, opts, nops):
    """a comparator under which different byte strings are one user key (ASCII case folding): every write, delete, read and
    seek uses a random spelling, so overwrites and tombstones meet older versions spelled differently in other files"""
    opts = rng.choice(['wbuf=65536 cmp=ci', 'wbuf=65536 cmp=ci comp=1 block=2048', 'wbuf=65536 cmp=ci restart=1 block=1024'])
    return rng.choice([family_random, family_tombstones, family_snapshot_chain])(rng, dbdir, opts, nops)


FAMILIES = [('random', family_random), ('snapshot-chain', family_snapshot_chain), ('tombstones', family_tombstones), ('disjoint', family_disjoint), ('casefold', family_casefold), ('l0chain', family_l0chain), ('splitkey', family_splitkey), ('deep', family_deep)]


def family_seekcompact(rng, dbdir, opts, nops):
    """seek-triggered compactions (file_to_compact): a few overlapping level-0 tables written by recovery (so that they stay
    in level 0), then >= allowed_seeks (100 for small tables) lookups of a key that lies inside the range of the newest table
    but is found only in an older one -- the newest table is charged a seek each time and becomes the compaction victim at
    level 0, where the compaction has to take every overlapping level-0 file with it.  Then the same one level down: a
    level-1 file whose range covers a key that only the level-2 file below it holds."""
    h = Hist(rng, dbdir, opts, rng.choice([16, 24]))
    h.open()
    ks = sorted(h.keys)
    n = len(ks)
    for rnd in range(max(2, nops // 25)):
        deep = rnd % 2 == 1
        if deep:
            # level 2: all keys; level 1: only the two edge keys (range covers everything in between)
            for k in ks:
                h.emit('put %s %s' % (proto.arg(h.spell(k)), h.val(True)))
            h.emit('flushmem')
            h.emit('compact 0 * *')
            h.emit('compact 1 * *')
            h.emit('put %s %s' % (proto.arg(h.spell(ks[0])), h.val(True)))
            h.emit('put %s %s' % (proto.arg(h.spell(ks[-1])), h.val(True)))
            h.emit('flushmem')
            h.emit('compact 0 * *')
        else:
            h.emit('compact 0 * *')      # fewer than four level-0 files: no size-triggered compaction competes
            ntab = rng.range(2, 3)
            for t in range(ntab):
                if t == 0:
                    for k in ks:
                        if rng.chance(5, 6):
                            h.emit('put %s %s' % (proto.arg(h.spell(k)), h.val(True)))
                else:
                    # newer table: the edges (so its range covers the key space) and a few overwrites / deletions inside
                    h.emit('put %s %s' % (proto.arg(h.spell(ks[0])), h.val(True)))
                    h.emit('put %s %s' % (proto.arg(h.spell(ks[-1])), h.val(True)))
                    for _ in range(rng.range(1, 4)):
                        k = ks[rng.range(1, n - 2)]
                        if k == ks[n // 2]:
                            continue
                        if rng.chance(1, 3):
                            h.emit('del %s' % proto.arg(h.spell(k)))
                        else:
                            h.emit('put %s %s' % (proto.arg(h.spell(k)), h.val(True)))
                h.reopen()                # recovery writes the log as a level-0 table
        if rng.chance(1, 3):
            h.snap()
        h.emit('ver')
        probe = ks[n // 2]
        for i in range(rng.range(105, 130)):
            h.emit('get %s' % proto.arg(h.spell(probe)))
        h.emit('ver')
        h.read_all()
        if rng.chance(1, 3):
            h.iter_walk(10)
        h.write_some(rng.range(1, 4), small=True)
    h.read_all()
    h.emit('ls')
    h.emit('close')
    return h.lines


FAMILIES.append(('seekcompact', family_seekcompact))


def gen_history(rng, dbdir, nops):
    opts = rng.choice(opt_sets(rng, None))
    name, fam = rng.choice([f for f in FAMILIES if f[0] not in ('repair', 'lifecycle', 'corrupt', 'manifest-growth')])
    return name, opts, fam(rng, dbdir, opts, nops)


def repair_chain(rng, dbdir, opts):
    """two or three tables (and possibly a live log) whose key ranges form a chain, an older one reaching below a newer
    one; repair puts them all in level 0; then a manual level-0 compaction over the part of the newer table that lies
    above the older one, reads, follow-up writes, reopen"""
    h = Hist(rng, dbdir, opts, 12)
    h.open()
    ks = sorted(h.keys)
    n = len(ks)
    a0 = rng.below(max(1, n - 6))
    a1 = min(n - 2, a0 + rng.range(1, 3))
    x0 = rng.range(a0 + 1, a1)
    x1 = min(n - 1, a1 + rng.range(1, 3))
    wins = [(a0, a1)]
    if rng.chance(1, 2):
        wins.append((x1, min(n - 1, x1 + rng.range(0, 2))))
    wins.append((x0, x1))
    for w, (a, b) in enumerate(wins):
        for k in ks[a:b + 1]:
            if rng.chance(1, 6) and w > 0:
                h.emit('del %s' % proto.arg(k))
            else:
                h.emit('put %s %s' % (proto.arg(k), h.val(True)))
        if w + 1 < len(wins) or rng.chance(1, 2):
            h.emit('flushmem')          # the newest window may stay in the log: repair turns it into a table
    h.emit('close')
    h.emit('repair %d' % rng.choice([0, 0, 1, 2, 3]))
    h.snaps = {}
    h.iters = {}
    h.open()
    h.emit('dumpall')
    h.read_all(with_snaps=False)
    i = rng.range(a1 + 1, x1)
    h.emit('compact 0 %s %s' % (proto.arg(ks[i]), proto.arg(ks[rng.range(i, x1)])))
    h.read_all(with_snaps=False)
    h.iter_walk(20)
    h.write_some(rng.range(2, 5), small=True)
    h.read_all(with_snaps=False)
    h.emit('flushmem')
    h.reopen()
    h.read_all(with_snaps=False)
    h.iter_walk(10)
    h.emit('close')
    return h.lines


def family_repair(rng, dbdir, opts, nops):
    """states whose file numbering does not follow data age (flush, deeper-level manual compaction that renumbers
    old data, newer flushes above), live logs, tombstones; then metadata loss + repair + reopen + follow-up writes"""
    if rng.chance(1, 3):
        return repair_chain(rng, dbdir, opts)
    h = Hist(rng, dbdir, opts, rng.choice([4, 10]))
    h.open()
    for _ in range(nops):
        k = rng.below(12)
        if k < 6:
            h.write_some(rng.range(1, 3), small=rng.chance(1, 2))
        elif k < 8:
            h.emit('flushmem')
        elif k < 10:
            h.emit('compact %d * *' % rng.range(1, 4))
        elif k < 11:
            h.emit('compact 0 * *')
        else:
            h.read_all(with_snaps=False, sample=4)
    if rng.chance(1, 2):
        h.write_some(rng.range(1, 3), small=True)      # left in the log only
    h.emit('close')
    h.emit('repair %d' % rng.choice([0, 0, 1, 2, 3]))
    if rng.chance(1, 4):
        h.emit('repair 3')          # repairing twice in a row (nothing removed in between) must be harmless
    h.snaps = {}
    h.iters = {}
    h.open()
    h.emit('dumpall')
    h.read_all(with_snaps=False)
    h.iter_walk(20)
    if rng.chance(1, 2):
        # repair leaves every table in level 0 (chains of overlapping files): partial manual compactions of level 0
        ks = sorted(h.keys)
        for _ in range(rng.range(1, 3)):
            i = rng.below(len(ks))
            j = rng.range(i, len(ks) - 1)
            h.emit('compact 0 %s %s' % (proto.arg(ks[i]), proto.arg(ks[j])))
            h.read_all(with_snaps=False)
    h.write_some(rng.range(2, 5), small=True)
    h.read_all(with_snaps=False)
    h.emit('flushmem')
    h.reopen()
    h.read_all(with_snaps=False)
    h.iter_walk(10)
    h.emit('close')
    return h.lines


FAMILIES.append(('repair', family_repair))


def family_lifecycle(rng, dbdir, opts, nops):
    """open/close/failed-open/second-open sequences, lock probes from another process, backups between arbitrary
    operations (memtable-only data, pending flushes, many levels), copy, wrong-comparator open, destroy with foreign files"""
    import os
    h = Hist(rng, dbdir, opts, rng.choice([5, 12]))
    base = os.path.dirname(dbdir)
    h.emit('journal on')
    h.open()
    nb = 0
    backups = []
    for _ in range(nops):
        k = rng.below(22)
        if k < 8:
            h.write_some(rng.range(1, 4), small=rng.chance(1, 2))
        elif k < 10:
            h.emit(rng.choice(['flushmem', 'compact %d * *' % rng.below(3)]))
        elif k < 12:
            h.emit('lockprobe %s' % dbdir)
        elif k < 14:
            h.emit('open2 %s %s' % (dbdir, opts))       # must fail: already open in this process
            h.emit('lockprobe %s' % dbdir)              # and must not have released the lock
        elif k < 17:
            name = os.path.join(base, 'bak%d' % nb)
            nb += 1
            h.emit('backup %s' % name)
            backups.append(name)
            h.emit('bcheck %s' % name)
            if rng.chance(1, 3):
                # a backup into a directory that exists already (an earlier backup, or the database itself) is refused
                # -- and must leave that directory as it was
                target = rng.choice(backups + [dbdir])
                h.emit('backup %s' % target)
                if target != dbdir:
                    h.emit('bcheck %s' % target)
                else:
                    h.read_all(with_snaps=False, sample=4)
        elif k < 18 and backups:
            h.emit('bcheck %s' % rng.choice(backups))   # later source writes must not change an earlier backup
        elif k < 19:
            h.emit('close')
            h.emit('lockprobe %s' % dbdir)              # released
            if rng.chance(1, 2):
                if 'cmp=' not in opts:
                    wrong = opts + ' cmp=' + rng.choice(['rev', 'len', 'bw2', 'bwp'])     # bw2/bwp: names that extend / are a prefix of the right name
                elif 'cmp=rev' in opts:
                    wrong = opts.replace('cmp=rev', 'cmp=' + rng.choice(['bw', 'rev2', 'revp']))
                else:
                    wrong = opts.replace('cmp=len', 'cmp=bw').replace('cmp=ci', 'cmp=bw')
                h.emit('expectfail')
                h.emit('open %s %s' % (dbdir, wrong))
                h.emit('lockprobe %s' % dbdir)          # a failed open releases the lock
            if rng.chance(1, 3):
                name = os.path.join(base, 'copy%d' % nb)
                nb += 1
                h.emit('copy %s %s' % (dbdir, name))
                backups.append(name)
                h.emit('bcheck %s' % name)
            h.snaps = {}
            h.iters = {}
            h.open()
        else:
            h.read_all(with_snaps=False, sample=4)
    for b in backups[-3:]:
        h.emit('bcheck %s' % b)
    h.read_all(with_snaps=False)
    h.emit('close')
    if rng.chance(1, 2):
        for nm in ['README.txt', 'notes.log.bak', 'MANIFEST', '000001.tmp', 'foo.ldb.old']:
            if rng.chance(1, 2):
                h.emit('foreign %s' % nm)
        h.emit('destroy')
    return h.lines


FAMILIES.append(('lifecycle', family_lifecycle))


def family_corrupt(rng, dbdir, opts, nops):
    """build a small multi-table database, close it, then for many alterations: copy it, damage one file of the copy,
    open the copy with paranoid checks and checksum verification, look every key up and scan in both directions"""
    import os
    base = os.path.dirname(dbdir)
    o = rng.choice(['wbuf=65536 block=1024 restart=4', 'wbuf=65536 block=1024 comp=1 filter=10', 'wbuf=65536 block=4096 restart=16 filter=3', 'wbuf=65536 block=2048 mmap=0'])
    h = Hist(rng, dbdir, o, 14)
    h.open()
    for i in range(3):
        for k in h.keys:
            if rng.chance(3, 4):
                h.emit('put %s %s' % (proto.arg(k), '@%d~%d' % (rng.below(1 << 20), rng.range(200, 6000))))
        if rng.chance(1, 3):
            h.emit('del %s' % proto.arg(h.key()))
        h.emit('flushmem')
        if rng.chance(1, 2):
            h.emit('compact %d * *' % rng.below(3))
    h.write_some(3, small=True)       # stays in the log
    h.read_all(with_snaps=False)
    h.emit('close')
    dst = os.path.join(base, 'damaged')
    h.emit('verify 1')
    for _ in range(nops):
        r = rng.below(20)
        kind = 'ldb' if r < 14 else ('log' if r < 17 else ('MANIFEST' if r < 19 else 'CURRENT'))
        m = rng.below(10)
        pos = 'p%d' % rng.below(1000) if rng.chance(4, 5) else str(rng.below(64))
        if m < 4:
            mut = 'x:%s:%d' % (pos, 1 << rng.below(8))
        elif m < 6:
            mut = 's:%s:%d' % (pos, rng.choice([0, 255]))
        elif m < 8:
            mut = 't:%s' % pos
        else:
            mut = 'z:%s:512' % pos
        h.emit('corruptcopy %s %s %s:%d %s' % (dbdir, dst, kind, rng.below(6), mut))
        h.emit('open %s %s paranoid=1 create=0' % (dst, o))
        for k in h.keys:
            h.emit('get %s' % proto.arg(k))
        h.emit('scanall')
        h.emit('close')
    return h.lines


FAMILIES.append(('corrupt', family_corrupt))


FAMILIES += FAMILIES_EXTRA
