"""C14 — Level structure: trace validation of real histories against the Lsm model + theorems over the model."""
import wlcheck

PID = 'C14'
TAGS = set('inv,layout,step'.split(','))
THEOREMS = []
IMPORTS = ['LcdbModel.Props.C14']
TARGETS = ['LcdbModel.Props.C14']


def run(tier):
    return wlcheck.run(PID, tier, TAGS, THEOREMS, IMPORTS, TARGETS)


def replay(path):
    return wlcheck.replay(PID, path)
