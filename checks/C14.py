"""C14 — Level structure: trace validation of real histories against the Lsm model + theorems over the model."""
import wlcheck

PID = 'C14'
TAGS = set('inv,layout,step,inputs,picklevel,droploop'.split(','))
THEOREMS = [
    'Lcdb.C14.step_preserves_inv',
    'Lcdb.C14.steps_preserve_inv',
    'Lcdb.C14.initial_inv',
    'Lcdb.C14.compact_preserves_inv',
    'Lcdb.C14.flush_preserves_inv',
    'Lcdb.C14.write_preserves_inv',
    'Lcdb.C01.invCheck_sound',
    'Lcdb.C01.levelRun_sorted',
]
IMPORTS = ['LcdbModel.Props.C14', 'LcdbModel.Props.C01']
TARGETS = ['LcdbModel.Props.C14', 'LcdbModel.Props.C01']


def run(tier):
    # Lsm.Inv evaluated on the layout and file contents the implementation reports IS the statement of C14
    return wlcheck.run(PID, tier, TAGS, THEOREMS, IMPORTS, TARGETS, oracle_tags=('inv', 'layout'))


def replay(path):
    return wlcheck.replay(PID, path)
