#!/usr/bin/env python3
"""mutation sanity check of the file-selection slice: apply one seeded bug to a scratch copy of /repo
(/tmp/sl/policy-mut-*, pointed at with VERIF_REPO, removed afterwards) and run policy_quick.py on it.
usage: policy_mutants.py [index ...]      (sequential: every mutant is a full ASan build of the tree)"""
import os, re, shutil, signal, subprocess, sys, tempfile
W = os.path.dirname(os.path.dirname(os.path.abspath(__file__)))
VS = 'src/version_set.c'
MUTS = [
 ('m1a get_overlapping_inputs: no restart after widening begin', VS,
  "          user_begin = file_start;\n          ldb_vector_reset(inputs);\n          i = 0;\n",
  "          user_begin = file_start;\n"),
 ('m1b get_overlapping_inputs: no restart after widening end', VS,
  "          user_end = file_limit;\n          ldb_vector_reset(inputs);\n          i = 0;\n",
  "          user_end = file_limit;\n"),
 ('m1c get_overlapping_inputs: level-0 widening dropped altogether', VS,
  "      if (level == 0) {\n        /* Level-0 files may overlap each other.", "      if (0 && level == 0) {\n        /* Level-0 files may overlap each other."),
 ('m2a setup_other_inputs: no boundary files for inputs[1] (level+1)', VS,
  "  add_boundary_inputs(&vset->icmp,\n                      &vset->current->files[level + 1],\n                      &c->inputs[1]);\n", "  ;\n"),
 ('m2b setup_other_inputs: no boundary files for inputs[0] (level)', VS,
  "  add_boundary_inputs(&vset->icmp,\n                      &vset->current->files[level],\n                      &c->inputs[0]);\n", "  ;\n"),
 ('m2c setup_other_inputs: no boundary files for expanded0', VS,
  "    add_boundary_inputs(&vset->icmp, &vset->current->files[level], &expanded0);\n", "    ;\n"),
 ('m2d setup_other_inputs: no boundary files for expanded1', VS,
  "      add_boundary_inputs(&vset->icmp,\n                          &vset->current->files[level + 1],\n                          &expanded1);\n", "      ;\n"),
 ('m3  find_smallest_boundary_file: continue test < instead of <=', VS,
  "    if (ldb_compare(icmp, &f->smallest, largest_key) <= 0)\n      continue;", "    if (ldb_compare(icmp, &f->smallest, largest_key) < 0)\n      continue;"),
 ('m3b find_smallest_boundary_file: keeps the LARGEST candidate', VS,
  "      if (res == NULL || ldb_compare(icmp, &f->smallest, &res->smallest) < 0)", "      if (res == NULL || ldb_compare(icmp, &f->smallest, &res->smallest) > 0)"),
 ('m4  find_file: largest <= key goes right', VS,
  "    if (ldb_compare(icmp, &f->largest, key) < 0) {", "    if (ldb_compare(icmp, &f->largest, key) <= 0) {"),
 ('m5  pick_level: level+1 overlap test ignored', VS,
  "      if (ldb_version_overlap_in_level(ver, level + 1, small_key, large_key))\n        break;",
  "      if (0 && ldb_version_overlap_in_level(ver, level + 1, small_key, large_key))\n        break;"),
 ('m5b pick_level: grandparent bytes >= instead of >', VS,
  "        if (sum > max_grandparent_overlap_bytes(ver->vset->options))\n          break;", "        if (sum >= max_grandparent_overlap_bytes(ver->vset->options))\n          break;"),
 ('m6  compact_range: cut at total > limit', VS, "      if (total >= limit) {", "      if (total > limit) {"),
 ('m7a setup_other_inputs: expansion size test <=', VS,
  "        inputs1_size + expanded0_size <\n            expanded_compaction_byte_size_limit(vset->options)) {",
  "        inputs1_size + expanded0_size <=\n            expanded_compaction_byte_size_limit(vset->options)) {"),
 ('m7b expanded_compaction_byte_size_limit: 26x', VS, "  return 25 * target_file_size(options);", "  return 26 * target_file_size(options);"),
 ('m7c setup_other_inputs: expansion accepted when level+1 count grows', VS,
  "      if (expanded1.length == c->inputs[1].length) {", "      if (expanded1.length >= c->inputs[1].length) {"),
 ('m8a after_file: >= instead of >', VS, "  return ldb_compare(ucmp, user_key, &largest) > 0;", "  return ldb_compare(ucmp, user_key, &largest) >= 0;"),
 ('m8b before_file: <= instead of <', VS, "  return ldb_compare(ucmp, user_key, &smallest) < 0;", "  return ldb_compare(ucmp, user_key, &smallest) <= 0;"),
 ('m9  setup_other_inputs: grandparents taken from level+1', VS,
  "    ldb_version_get_overlapping_inputs(vset->current, level + 2,\n                                       &all_start, &all_limit,\n                                       &c->grandparents);",
  "    ldb_version_get_overlapping_inputs(vset->current, level + 1,\n                                       &all_start, &all_limit,\n                                       &c->grandparents);"),
 ('m10 pick_compaction: first file with largest >= compact pointer', VS,
  "                      &vset->compact_pointer[level]) > 0) {", "                      &vset->compact_pointer[level]) >= 0) {"),
 ('m11 is_trivial_move: grandparent bytes < instead of <=', VS,
  "         total_file_size(&c->grandparents) <=\n           max_grandparent_overlap_bytes(vset->options);",
  "         total_file_size(&c->grandparents) <\n           max_grandparent_overlap_bytes(vset->options);"),
 ('m12 get_overlapping_inputs: file ending AT begin is skipped', VS,
  "    if (begin != NULL && ldb_compare(uc, &file_limit, &user_begin) < 0) {", "    if (begin != NULL && ldb_compare(uc, &file_limit, &user_begin) <= 0) {"),
 ('m13 setup_other_inputs: compact pointer = smallest key', VS,
  "  ldb_buffer_copy(&vset->compact_pointer[level], &largest);", "  ldb_buffer_copy(&vset->compact_pointer[level], &smallest);"),
 ('m14 setup_other_inputs: level+1 inputs from user range of inputs[0] minus the end (uses all_start twice)', VS,
  "  ldb_version_get_overlapping_inputs(vset->current, level + 1,\n                                     &smallest, &largest,\n                                     &c->inputs[1]);",
  "  ldb_version_get_overlapping_inputs(vset->current, level + 1,\n                                     &smallest, &smallest,\n                                     &c->inputs[1]);"),
 ('m15 pick_compaction: level-0 inputs not widened to the overlapping set', VS,
  "  if (level == 0) {\n    ldb_slice_t smallest, largest;\n\n    ldb_versions_get_range(vset, &c->inputs[0], &smallest, &largest);",
  "  if (0 && level == 0) {\n    ldb_slice_t smallest, largest;\n\n    ldb_versions_get_range(vset, &c->inputs[0], &smallest, &largest);"),
 ('m16 find_largest_key: keeps the first file (EQUIVALENT on sorted levels >= 1; visible on level 0 / unsorted)', VS,
  "      if (ldb_compare(icmp, &f->largest, large) > 0)\n        large = &f->largest;\n    }\n  }\n\n  *largest_key = *large;",
  "      if (0 && ldb_compare(icmp, &f->largest, large) > 0)\n        large = &f->largest;\n    }\n  }\n\n  *largest_key = *large;"),
]


def main():
    which = [int(x) for x in sys.argv[1:]] or range(len(MUTS))
    seed, n = os.environ.get('POLICY_MUT_SEED', '1'), os.environ.get('POLICY_MUT_N', '1200')
    for i in which:
        name, rel, old, new = MUTS[i]
        d = tempfile.mkdtemp(prefix='policy-mut-%d-' % i, dir='/tmp/sl')
        try:
            shutil.copytree('/repo/src', d + '/src')
            shutil.copytree('/repo/include', d + '/include')
            p = os.path.join(d, rel)
            s = open(p).read()
            if s.count(old) != 1:
                print('MUT %2d %s: pattern occurs %d times' % (i, name, s.count(old)), flush=True)
                continue
            open(p, 'w').write(s.replace(old, new))
            env = dict(os.environ, VERIF_REPO=d, VERIF_JOBS=os.environ.get('VERIF_JOBS', '4'), POLICY_ASAN_EXTRA='hard_rss_limit_mb=300')
            # hard wall-clock limit per mutant: a mutant may make the C code loop forever (m3: a single-key file becomes its own
            # boundary file and add_boundary_inputs never ends); the whole process group is killed
            pr = subprocess.Popen(['python3', W + '/checks/policy_quick.py', seed, n], env=env, stdout=subprocess.PIPE, stderr=subprocess.STDOUT,
                                  text=True, start_new_session=True)
            try:
                out, _ = pr.communicate(timeout=int(os.environ.get('POLICY_MUT_TIMEOUT', '120')))
            except subprocess.TimeoutExpired:
                os.killpg(pr.pid, signal.SIGKILL)
                pr.communicate()
                print('MUT %2d %-100s DETECTED     C hangs / timeout (run killed after the wall-clock limit)' % (i, name), flush=True)
                continue

            class R:
                pass
            r = R()
            r.stdout, r.returncode = out, pr.returncode
            last = [l for l in r.stdout.split('\n') if l.startswith('seed')]
            summ = last[0] if last else r.stdout[-400:]
            m = re.search(r'disagreements (\d+) \(suites (\d+)\); oracle violations (\d+) \(prop (\d+), ref (\d+)\); C faults (\d+)', summ)
            first = [l for l in r.stdout.split('\n') if l.startswith('ORACLE VIOLATION')]
            det = 'DETECTED' if r.returncode != 0 else 'NOT DETECTED'
            if m:
                print('MUT %2d %-100s %-12s differential: %s disagreements in %s suites; oracles: %s violating cases (prop %s, ref %s); C faults %s'
                      % (i, name, det, m.group(1), m.group(2), m.group(3), m.group(4), m.group(5), m.group(6)), flush=True)
            else:
                print('MUT %2d %-100s %s %s' % (i, name, det, summ[:300]), flush=True)
            if os.environ.get('POLICY_MUT_VERBOSE') and first:
                print('        first:', first[0][:300], flush=True)
        finally:
            shutil.rmtree(d, ignore_errors=True)


main()
