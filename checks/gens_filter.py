"""Request generators (with direct property oracles) for hash / bloom filter / filter block /
internal filter policy / block handle / footer  (harness/u_filter.h, lean/Driver/Filter.lean).

The oracles judge the C response against the property itself and never look at the Lean model:
  * no false negatives: every key that was added is matched (bloom level, filter-block level at the
    offset of its data block, and through the internal-key wrapper for any trailer),
  * interoperability with a filter / filter block produced by the small Python builder below
    (an independent third implementation; also used to make valid inputs for the mutation streams),
  * handle / footer round trips, footer length 48, magic, zero padding, padding bytes irrelevant,
  * published LevelDB hash test vectors,
  * malformed inputs: no `fault:` (judged by run_cases for every case).
False-positive rates are deliberately NOT an oracle."""
import proto
from common import Case
from gens import BOUNDS, py_varint, rand_u

M32 = 0xFFFFFFFF
MAGIC = 0xdb4775248b80fb57
FILTER_BASE_LG = 11


# ---------------------------------------------------------------- python reference builder
def py_hash(data, seed):
    m = 0xc6a4a793
    h = (seed ^ (len(data) * m)) & M32
    i = 0
    while len(data) - i >= 4:
        w = int.from_bytes(data[i:i + 4], 'little')
        h = (h + w) & M32
        h = (h * m) & M32
        h ^= h >> 16
        i += 4
    rest = data[i:]
    if rest:
        h = (h + int.from_bytes(rest, 'little')) & M32
        h = (h * m) & M32
        h ^= h >> 24
    return h


def py_k(bits_per_key):
    return max(1, min(30, int(bits_per_key * 0.69)))


def py_bloom_len(bits_per_key, n):
    return (max(64, n * bits_per_key) + 7) // 8 + 1


def py_bloom_build(bits_per_key, keys):
    nbytes = py_bloom_len(bits_per_key, len(keys)) - 1
    bits = nbytes * 8
    k = py_k(bits_per_key)
    data = bytearray(nbytes + 1)
    for key in keys:
        h = py_hash(key, 0xbc9f1d34)
        delta = ((h >> 17) | (h << 15)) & M32
        for _ in range(k):
            pos = h % bits
            data[pos // 8] |= 1 << (pos % 8)
            h = (h + delta) & M32
    data[nbytes] = k
    return bytes(data)


def py_filter_layout(blocks):
    """group keys by filter index exactly as the call sequence (start_block add_key*)* finish does;
    returns the list of key lists, one per generated filter"""
    filters, pending = [], []
    for off, keys in blocks:
        idx = off >> FILTER_BASE_LG
        while idx > len(filters):
            filters.append(pending)
            pending = []
        pending = pending + list(keys)
    if pending:
        filters.append(pending)
    return filters


def py_filter_build(bits_per_key, blocks, strip=False):
    filters = py_filter_layout(blocks)
    out = bytearray()
    offs = []
    for ks in filters:
        offs.append(len(out))
        if ks:
            out += py_bloom_build(bits_per_key, [k[:-8] for k in ks] if strip else ks)
    arr = len(out)
    for o in offs:
        out += (o & M32).to_bytes(4, 'little')
    out += (arr & M32).to_bytes(4, 'little')
    out.append(FILTER_BASE_LG)
    return bytes(out)


# ---------------------------------------------------------------- inputs
def rand_bits(rng):
    k = rng.below(20)
    if k < 14:
        return rng.range(1, 20)
    if k < 15:
        return 0
    if k < 16:
        return 50
    if k < 17:
        return 100
    if k < 19:
        return rng.range(21, 120)
    return rng.choice([128, 255, 256, 1000])


def rand_user_key(rng):
    k = rng.below(12)
    if k == 0:
        return b''
    if k < 3:
        return bytes([rng.choice([0x61, 0x62, 0x63]) for _ in range(rng.range(1, 5))])
    if k < 5:
        return bytes([0xff] * rng.range(1, 9)) + rng.bytes(rng.below(3))
    if k < 7:
        return b'key' + rng.bytes(rng.below(5))
    if k < 8:
        return bytes([0] * rng.range(1, 6))
    if k < 9:
        return rng.bytes(rng.range(1, 70))
    return rng.bytes(rng.below(17))


def trailer(rng):
    k = rng.below(4)
    if k == 0:
        return bytes([0xff] * 8)
    if k == 1:
        return bytes(8)
    return ((rand_u(rng, 56) << 8) | rng.below(2)).to_bytes(8, 'little')


def rand_keyset(rng, n, internal=False):
    """n keys: a mix of shared-prefix families, empty key, 0xFF runs, duplicates"""
    keys = []
    style = rng.below(4)
    prefix = rng.choice([b'', b'user', b'\xff\xff\xff', rng.bytes(rng.range(1, 12)), b'a' * rng.range(1, 30)])
    width = rng.choice([1, 2, 4, 8])
    base = rng.below(1 << 16)
    for i in range(n):
        if style == 0 or (style == 3 and rng.chance(1, 2)):
            k = prefix + (base + i).to_bytes(8, 'big')[8 - width:]            # sequential, shared prefix
        elif style == 1:
            k = rand_user_key(rng)
        elif style == 2:
            k = prefix + rng.bytes(rng.below(6))
        else:
            k = rand_user_key(rng)
        if keys and rng.chance(1, 25):
            k = rng.choice(keys)[:-8] if internal else rng.choice(keys)         # duplicate
        if internal:
            k = k + trailer(rng)
        keys.append(k)
    return keys


def rand_count(rng, big_ok=True):
    k = rng.below(40)
    if k < 10:
        return rng.below(4)
    if k < 28:
        return rng.range(1, 30)
    if k < 37:
        return rng.range(30, 200)
    if k < 39 or not big_ok:
        return rng.range(200, 700)
    return rng.range(700, 2000)


def keys_arg(keys):
    return ','.join(proto.arg(k) for k in keys) if keys else '.'


def spec_arg(blocks):
    return ';'.join('%d:%s' % (off, keys_arg(keys)) for off, keys in blocks) if blocks else '.'


def other_key(rng, keys, internal=False):
    """a probe that is usually not in the set"""
    k = rng.below(4)
    if k == 0 and keys:
        b = bytearray(rng.choice(keys))
        if b:
            b[rng.below(len(b))] ^= 1 << rng.below(8)
        else:
            b = bytearray(b'\x00')
        b = bytes(b)
    elif k == 1 and keys:
        b = rng.choice(keys) + b'\x00'
    else:
        b = rand_user_key(rng)
    if internal and len(b) < 8:
        b = b + trailer(rng)
    return b


def rand_blocks(rng, internal=False, big_ok=True):
    """data blocks (offset, keys) with non-decreasing offsets: blocks inside one 2 KiB range,
    typical 4 KiB blocks, gaps of >= 2 filters, a few far jumps (thousands of empty filters)"""
    nb = rng.choice([0, 1, 1, 2, 3, 4, rng.range(1, 12), rng.range(1, 40)])
    off = rng.choice([0, 0, 0, rng.below(2048), rng.below(10000), rng.below(1 << 16)])
    blocks = []
    budget = 2500 if big_ok else 300
    for _ in range(nb):
        n = min(budget, rng.choice([0, 1, 2, rng.below(8), rng.below(40), rand_count(rng, big_ok)]))
        budget -= n
        blocks.append((off, rand_keyset(rng, n, internal)))
        k = rng.below(20)
        if k < 4:
            off += rng.below(600)                    # same or next filter range
        elif k < 12:
            off += rng.range(3500, 4700)             # ~4 KiB data blocks
        elif k < 15:
            off += rng.range(1, 2048)
        elif k < 18:
            off += rng.range(2, 12) * 2048 + rng.below(2048)      # gap of >= 2 filters
        elif k < 19:
            off += rng.range(100, 2000) * 2048
        else:
            off += rng.below(1 << 23)                # up to 4096 empty filters
    return blocks


# ---------------------------------------------------------------- hash
HASH_VECTORS = [
    (b'', 0xbc9f1d34, 0xbc9f1d34),
    (bytes([0x62]), 0xbc9f1d34, 0xef1345c4),
    (bytes([0xc3, 0x97]), 0xbc9f1d34, 0x5b663814),
    (bytes([0xe2, 0x99, 0xa5]), 0xbc9f1d34, 0x323c078f),
    (bytes([0xe1, 0x80, 0xb9, 0x32]), 0xbc9f1d34, 0xed21633a),
    (bytes([0x01, 0xc0] + [0] * 14 + [0x14, 0, 0, 0, 0, 0, 0x04, 0, 0, 0, 0, 0x14, 0, 0, 0, 0x18, 0x28] + [0] * 7 + [0x02] + [0] * 7), 0x12345678, 0xf333dabb),
]


def gen_hash(rng, n):
    cases = []
    for data, seed, want in HASH_VECTORS:
        cases.append(Case('hash-vectors', 'hash %d %s' % (seed, proto.arg(data)),
                          oracle=lambda r, want=want: None if r == str(want) else 'ldb_hash test vector: expected %d got %s' % (want, r)))
    for _ in range(n):
        k = rng.below(6)
        ln = rng.choice([0, 1, 2, 3, 4, 5, 7, 8, 9, rng.below(40), rng.below(300)])
        if k == 0:
            arg = '=%02x~%d' % (rng.choice([0, 0xff, 0x80, 0x7f, rng.below(256)]), ln)
        elif k == 1:
            arg = '@%d~%d' % (rng.below(1 << 20), rng.choice([ln, rng.below(5000)]))
        else:
            arg = proto.arg(rng.bytes(ln))
        seed = rng.choice([0, 0xbc9f1d34, M32, rand_u(rng, 32)])

        def orc(r):
            return None if r.isdigit() and int(r) <= M32 else 'hash is not a 32-bit number: %s' % r
        cases.append(Case('hash', 'hash %d %s' % (seed, arg), oracle=orc))
    return cases


# ---------------------------------------------------------------- bloom
def resp_len(resp):
    if resp == '-':
        return 0
    if resp.startswith('#'):
        return int(resp[1:].split(':')[0])
    return len(resp) // 2


def gen_bloom(rng, n):
    cases = []
    # k for every small bits_per_key: visible in the last byte of the filter of zero keys
    for bits in list(range(0, 130)) + [255, 256, 1000, 65535, 1 << 20, (1 << 31) - 1] + [rng.range(130, 1 << rng.range(8, 31)) for _ in range(30)]:
        def korc(r, bits=bits):
            want = '0000000000000000%02x' % py_k(bits)
            return None if r == want else 'bloom filter of no keys with bits_per_key=%d: expected %s got %s' % (bits, want, r)
        cases.append(Case('bloom-k', 'bloom %d .' % bits, oracle=korc))
    for _ in range(n):
        bits = rand_bits(rng)
        cnt = rand_count(rng)
        if bits > 120:
            cnt = min(cnt, 60)
        keys = rand_keyset(rng, cnt)
        ka = keys_arg(keys)

        def lorc(r, bits=bits, cnt=cnt):
            want = py_bloom_len(bits, cnt)
            if resp_len(r) != want:
                return 'bloom filter of %d keys at %d bits/key has %d bytes, expected %d' % (cnt, bits, resp_len(r), want)
            if not r.startswith('#') and int(r[-2:], 16) != py_k(bits):
                return 'last filter byte (number of probes) is %s, expected %d' % (r[-2:], py_k(bits))
            return None
        cases.append(Case('bloom-build', 'bloom %d %s' % (bits, ka), oracle=lorc))
        # no false negatives
        probes = []
        if keys:
            probes = [keys[0], keys[-1]] + [rng.choice(keys) for _ in range(min(6, len(keys)))]
        for p in probes:
            cases.append(Case('bloom-no-false-negative', 'bloomrt %d %s %s' % (bits, ka, proto.arg(p)),
                              oracle=lambda r, p=p, bits=bits, cnt=cnt: None if r == '1' else 'key %s was added to a bloom filter (%d keys, %d bits/key) but does not match: %s' % (p.hex(), cnt, bits, r)))
        for _ in range(2):
            cases.append(Case('bloom-probe-other', 'bloomrt %d %s %s' % (bits, ka, proto.arg(other_key(rng, keys)))))
        # interoperability with the python builder
        if cnt <= 300:
            f = py_bloom_build(bits, keys)
            for p in probes[:3]:
                cases.append(Case('bloom-match-reference-filter', 'bmatch %d %s %s' % (rng.choice([bits, 10, 0]), proto.arg(f), proto.arg(p)),
                                  oracle=lambda r, p=p: None if r == '1' else 'key %s is in a valid bloom filter but bloom_match says %s' % (p.hex(), r)))
            cases.append(Case('bloom-match-other', 'bmatch %d %s %s' % (bits, proto.arg(f), proto.arg(other_key(rng, keys)))))
    return cases


def gen_bloom_malformed(rng, n):
    cases = []
    for _ in range(n):
        k = rng.below(8)
        key = rand_user_key(rng)
        orc = None
        if k == 0:
            f = rng.bytes(rng.choice([0, 1, 2, 3, rng.below(12), rng.below(80)]))
        elif k == 1:
            f = rng.bytes(rng.below(20)) + bytes([rng.range(31, 255)])      # reserved encodings: always a match
            if len(f) >= 2:
                orc = lambda r: None if r == '1' else 'filter with k > 30 must be treated as a match, got %s' % r
        elif k == 2:
            f = rng.bytes(rng.choice([0, 1]))                                # shorter than 2 bytes: never a match
            orc = lambda r: None if r == '0' else 'filter shorter than 2 bytes matched: %s' % r
        elif k == 3:
            f = bytes([0xff] * rng.range(1, 40)) + bytes([rng.below(31)])   # all bits set: match
            orc = lambda r: None if r == '1' else 'all-ones filter does not match: %s' % r
        elif k == 4:
            f = bytes(rng.range(1, 40)) + bytes([rng.range(1, 30)])          # no bit set, k >= 1: no match
            orc = lambda r: None if r == '0' else 'all-zero filter with k >= 1 matched: %s' % r
        elif k == 5:
            f = bytes(rng.range(1, 40)) + bytes([0])                         # k = 0: no probe, match
            orc = lambda r: None if r == '1' else 'filter with k = 0 must match (no probes): %s' % r
        else:
            keys = rand_keyset(rng, rng.range(1, 30))
            f = bytearray(py_bloom_build(rand_bits(rng) % 40, keys))
            key = rng.choice(keys)
            for _ in range(rng.range(1, 4)):
                m = rng.below(4)
                if m == 0:
                    f[rng.below(len(f))] ^= 1 << rng.below(8)
                elif m == 1:
                    f[-1] = rng.below(256)
                elif m == 2:
                    f = f[:rng.below(len(f) + 1)]
                    if not f:
                        break
                else:
                    f += rng.bytes(rng.range(1, 9))
            f = bytes(f)
        cases.append(Case('bloom-match-malformed', 'bmatch %d %s %s' % (rng.choice([10, 0, 1, 100]), proto.arg(f), proto.arg(key)), oracle=orc))
    return cases


# ---------------------------------------------------------------- filter block
def gen_filter_block(rng, n):
    cases = []
    for _ in range(n):
        internal = rng.chance(1, 3)
        pre = 'i' if internal else ''
        bits = rand_bits(rng)
        blocks = rand_blocks(rng, internal, big_ok=bits <= 120)
        sa = spec_arg(blocks)
        ref = py_filter_build(bits, blocks, strip=internal)

        def borc(r, ref=ref):
            want = proto.show_bytes(ref)
            return None if r == want else 'filter block differs from the reference layout (filters ‖ offsets ‖ array offset ‖ base_lg): expected %s got %s' % (want, r)
        cases.append(Case('filter-build', '%sfbuild %d %s' % (pre, bits, sa), oracle=borc))
        keyed = [(off, keys) for off, keys in blocks if keys]
        small = sum(len(k) for _, k in blocks) <= 400
        for _ in range(min(5, len(keyed) * 2)):
            off, keys = rng.choice(keyed)
            key = rng.choice(keys)
            probe = key
            what = 'key %s added under block offset %d' % (key.hex(), off)
            if internal and rng.chance(1, 2):
                probe = key[:-8] + trailer(rng)         # same user key, another sequence/type
                what += ' (probed as %s)' % probe.hex()
            # any offset inside the same 2 KiB range selects the same filter
            qoff = off if rng.chance(2, 3) else (off >> 11 << 11) + rng.below(2048)
            cases.append(Case('filter-covers-block', '%sfbrt %d %s %d %s' % (pre, bits, sa, qoff, proto.arg(probe)),
                              oracle=lambda r, what=what, qoff=qoff: None if r == '1' else '%s is not matched by the filter block at offset %d: %s' % (what, qoff, r)))
            if small:
                cases.append(Case('filter-match-reference-block', '%sfmatch %d %s %d %s' % (pre, rng.choice([bits, 10]), proto.arg(ref), qoff, proto.arg(probe)),
                                  oracle=lambda r, what=what, qoff=qoff: None if r == '1' else '%s is not matched in a valid filter block at offset %d: %s' % (what, qoff, r)))
        # other probes: different block, gaps, beyond the last filter, huge offsets
        for _ in range(3):
            keys_all = [k for _, ks in blocks for k in ks]
            key = rng.choice(keys_all) if keys_all and rng.chance(1, 2) else other_key(rng, keys_all, internal)
            last = blocks[-1][0] if blocks else 0
            qoff = rng.choice([0, rng.below(last + 4096), last + 2048 * rng.range(1, 3), rng.below(1 << 24), rand_u(rng, 64), (1 << 64) - 1, 1 << 63])
            nf = len(py_filter_layout(blocks))

            def oorc(r, qoff=qoff, nf=nf):
                if (qoff >> 11) >= nf and r != '1':
                    return 'block offset %d is beyond the %d filters of the block: must be treated as a potential match, got %s' % (qoff, nf, r)
                return None
            cases.append(Case('filter-probe-other', '%sfbrt %d %s %d %s' % (pre, bits, sa, qoff, proto.arg(key)), oracle=oorc))
    return cases


def put32(b, pos, v):
    b[pos:pos + 4] = (v & M32).to_bytes(4, 'little')


def gen_filter_malformed(rng, n):
    cases = []
    for _ in range(n):
        internal = rng.chance(1, 4)
        pre = 'i' if internal else ''
        bits = rng.choice([10, 10, 1, 5, 20, 0])
        k = rng.below(10)
        key = rand_user_key(rng) + (trailer(rng) if internal else b'')
        qoff = rng.choice([0, 0, rng.below(1 << 14), rng.below(1 << 24), rand_u(rng, 64), (1 << 64) - 1])
        orc = None
        if k == 0:
            b = rng.bytes(rng.choice([0, 1, 4, 5, 6, 9, rng.below(30), rng.below(200)]))
        elif k == 1:
            b = rng.bytes(rng.below(5))                 # shorter than 5 bytes: no filters, treated as match
            orc = lambda r: None if r == '1' else 'filter block shorter than 5 bytes must be treated as a match, got %s' % r
        else:
            blocks = rand_blocks(rng, internal, big_ok=False)
            if not any(ks for _, ks in blocks):
                blocks = blocks + [((blocks[-1][0] if blocks else 0) + 100, rand_keyset(rng, rng.range(1, 5), internal))]
            b = bytearray(py_filter_build(bits, blocks, strip=internal))
            nf = len(py_filter_layout(blocks))
            arr = len(b) - 5 - 4 * nf
            off, keys = rng.choice([x for x in blocks if x[1]])
            key = rng.choice(keys)
            qoff = off if rng.chance(3, 4) else qoff
            idx = min(qoff >> 11, nf - 1) if nf else 0
            for _ in range(rng.range(1, 3)):
                m = rng.below(12)
                if m == 0:
                    b[rng.below(len(b))] ^= 1 << rng.below(8)
                elif m == 1:                            # base_lg byte
                    b[-1] = rng.choice([0, 1, 10, 11, 12, 31, 32, 63, 64, 64 + 11, 128 + 11, 255, rng.below(256)])
                elif m == 2:                            # array offset word
                    put32(b, len(b) - 5, rng.choice([0, arr + 1, arr - 1, arr + 4, len(b) - 5, len(b) - 4, len(b), M32, 1 << 31, rng.below(len(b) + 8)]))
                elif m == 3 and nf:                     # start of the queried filter
                    put32(b, arr + 4 * idx, rng.choice([0, arr, arr + 1, M32, 1 << 31, rng.below(arr + 8)]))
                elif m == 4 and nf:                     # limit of the queried filter
                    put32(b, arr + 4 * idx + 4, rng.choice([0, arr, arr + 1, len(b), M32, 1 << 31, rng.below(arr + 8)]))
                elif m == 5 and nf:                     # start == limit beyond the array (empty-filter branch)
                    v = rng.choice([arr + 1, len(b), M32, rng.range(arr + 1, arr + 100)])
                    put32(b, arr + 4 * idx, v)
                    if arr + 4 * idx + 8 <= len(b):
                        put32(b, arr + 4 * idx + 4, v)
                elif m == 6:
                    b = b[:rng.below(len(b) + 1)]
                    if not b:
                        break
                elif m == 7:
                    b = b + rng.bytes(rng.range(1, 9))
                elif m == 8 and nf:                     # random garbage over the whole offset array
                    for j in range(nf):
                        put32(b, arr + 4 * j, rand_u(rng, 32))
                elif m == 9:
                    b = b[rng.below(len(b)):]
                    if not b:
                        break
                elif m == 10 and nf and arr + 4 * idx + 8 <= len(b):     # k byte of the queried filter
                    lim = int.from_bytes(b[arr + 4 * idx + 4:arr + 4 * idx + 8], 'little')
                    if 0 < lim <= len(b):
                        b[lim - 1] = rng.choice([0, 1, 30, 31, 255, rng.below(256)])
                else:
                    b[rng.below(len(b))] = rng.below(256)
            b = bytes(b)
        cases.append(Case('filter-match-malformed', '%sfmatch %d %s %d %s' % (pre, bits, proto.arg(b), qoff, proto.arg(key)), oracle=orc))
    return cases


# ---------------------------------------------------------------- handle / footer
def py_read_varint64(b, i):
    """(value, next index) or None — lcdb's reader: at most 10 bytes, result truncated to 64 bits"""
    v, shift = 0, 0
    while shift <= 63 and i < len(b):
        x = b[i]
        i += 1
        if x & 128:
            v |= (x & 127) << shift
        else:
            v |= x << shift
            return v & ((1 << 64) - 1), i
        shift += 7
    return None


def gen_handle_footer(rng, n):
    cases = []
    for _ in range(n):
        o, s = rand_u(rng, 64), rand_u(rng, 64)
        enc = py_varint(o) + py_varint(s)
        cases.append(Case('handle-enc', 'hdl %d %d' % (o, s),
                          oracle=lambda r, enc=enc: None if r == proto.arg(enc) else 'block handle encoding: expected %s got %s' % (enc.hex(), r)))
        rest = rng.bytes(rng.choice([0, 0, 1, rng.below(30)]))
        cases.append(Case('handle-roundtrip', 'hdldec %s' % proto.arg(enc + rest),
                          oracle=lambda r, o=o, s=s, rest=rest: None if r == 'ok %d %d %d' % (o, s, len(rest)) else 'block handle (%d, %d) round trip gives %s' % (o, s, r)))
        io, isz = rand_u(rng, 64), rand_u(rng, 64)
        if rng.chance(1, 3):
            o, s, io, isz = rng.below(1 << 20), rng.below(1 << 12), rng.below(1 << 30), rng.below(1 << 16)
        hs = py_varint(o) + py_varint(s) + py_varint(io) + py_varint(isz)
        want = hs + bytes(40 - len(hs)) + MAGIC.to_bytes(8, 'little')

        def forc(r, want=want):
            if len(r) != 96:
                return 'encoded footer is %d bytes, expected 48' % (len(r) // 2)
            return None if r == want.hex() else 'footer encoding: expected %s got %s' % (want.hex(), r)
        cases.append(Case('footer-enc', 'footer %d %d %d %d' % (o, s, io, isz), oracle=forc))
        extra = rng.bytes(rng.choice([0, 0, 1, 7, rng.below(60)]))
        vals = (o, s, io, isz)
        cases.append(Case('footer-roundtrip', 'footerdec %s' % proto.arg(want + extra),
                          oracle=lambda r, vals=vals, extra=extra: None if r == 'ok %d %d %d %d %d' % (vals + (len(extra),)) else 'footer %s round trip gives %s' % (vals, r)))
        # the padding bytes are not part of the information: junk there must not change the result
        if len(hs) < 40:
            junk = bytearray(want)
            for j in range(len(hs), 40):
                if rng.chance(2, 3):
                    junk[j] = rng.below(256)
            cases.append(Case('footer-padding-irrelevant', 'footerdec %s' % proto.arg(bytes(junk) + extra),
                              oracle=lambda r, vals=vals, extra=extra: None if r == 'ok %d %d %d %d %d' % (vals + (len(extra),)) else 'footer %s with junk in the padding decodes as %s' % (vals, r)))
    return cases


def gen_handle_footer_malformed(rng, n):
    cases = []
    for _ in range(n):
        k = rng.below(10)
        orc = None
        if k < 3:
            # handle decoding of arbitrary / non-canonical / truncated varints
            m = rng.below(4)
            if m == 0:
                b = rng.bytes(rng.below(24))
            elif m == 1:
                b = bytes([0x80 | rng.below(128) for _ in range(rng.below(12))]) + bytes([rng.below(128)]) + rng.bytes(rng.below(12))
            elif m == 2:
                b = bytes([0xff] * rng.below(11)) + bytes([rng.choice([0, 1, 2, 0x7f])]) + bytes([0xff] * rng.below(11)) + bytes([rng.choice([0, 1, 0x7f])])
            else:
                enc = py_varint(rand_u(rng, 64)) + py_varint(rand_u(rng, 64))
                b = enc[:rng.below(len(enc))]
                orc = lambda r: None if r == 'fail' else 'truncated block handle accepted: %s' % r

            def horc(r, b=b, orc=orc):
                if orc:
                    return orc(r)
                a = py_read_varint64(b, 0)
                c = py_read_varint64(b, a[1]) if a else None
                want = 'ok %d %d %d' % (a[0], c[0], len(b) - c[1]) if c else 'fail'
                return None if r == want else 'block handle decode of %s: expected %s got %s' % (b.hex(), want, r)
            cases.append(Case('handle-dec-malformed', 'hdldec %s' % proto.arg(b), oracle=horc))
            continue
        vals = [rand_u(rng, 64) for _ in range(4)]
        if rng.chance(1, 2):
            vals = [rng.below(1 << 24) for _ in range(4)]
        hs = b''.join(py_varint(v) for v in vals)
        b = bytearray(hs + bytes(40 - len(hs)) + MAGIC.to_bytes(8, 'little'))
        if k == 3:
            b = bytearray(rng.bytes(rng.choice([0, 47, 48, 49, rng.below(100)])))
        elif k == 4:
            b = b[:rng.below(48)]                                # too short
            orc = lambda r: None if r == 'fail' else 'footer shorter than 48 bytes accepted: %s' % r
        elif k == 5:
            b[40 + rng.below(8)] ^= 1 << rng.below(8)            # bad magic
            orc = lambda r: None if r == 'fail' else 'footer with a wrong magic number accepted: %s' % r
        elif k == 6:
            b = bytearray(rng.bytes(40)) + b[40:]                # random handle area, good magic
        elif k == 7:
            # continuation bits all the way: handles cannot be parsed
            for j in range(rng.below(40), 40):
                b[j] = 0x80 | rng.below(128)
        elif k == 8:
            b = b[rng.range(1, 8):] + bytearray(rng.bytes(8))   # shifted
        else:
            b[rng.below(len(b))] = rng.below(256)
        b = bytes(b)

        def frc(r, b=b, orc=orc):
            if orc:
                return orc(r)
            want = 'fail'
            if len(b) >= 48 and int.from_bytes(b[40:48], 'little') == MAGIC:
                out, i = [], 0
                for _ in range(4):
                    a = py_read_varint64(b, i)
                    if a is None:
                        out = None
                        break
                    out.append(a[0])
                    i = a[1]
                if out is not None:
                    want = 'ok %d %d %d %d %d' % (tuple(out) + (len(b) - 48,))
            return None if r == want else 'footer decode of %s: expected %s got %s' % (b.hex(), want, r)
        cases.append(Case('footer-dec-malformed', 'footerdec %s' % proto.arg(b), oracle=frc))
    return cases


# ---------------------------------------------------------------- everything
def gen_filter_all(rng, scale=1):
    """about 3200 * scale cases"""
    cases = []
    cases += gen_hash(rng.fork('hash'), 150 * scale)
    cases += gen_bloom(rng.fork('bloom'), 70 * scale)
    cases += gen_bloom_malformed(rng.fork('bloom-mal'), 250 * scale)
    cases += gen_filter_block(rng.fork('fb'), 110 * scale)
    cases += gen_filter_malformed(rng.fork('fb-mal'), 450 * scale)
    cases += gen_handle_footer(rng.fork('hf'), 120 * scale)
    cases += gen_handle_footer_malformed(rng.fork('hf-mal'), 350 * scale)
    return cases
