"""C04 — write batches are all-or-nothing."""
import vlib, gens
from common import Case, lean_stage, run_cases, load_corpus
from vlib import Check, Rng

PID = 'C04'
THEOREMS = [
    'Lcdb.ConstsOk.batch_ok',
    'Lcdb.C04.iterate_encode',
    'Lcdb.C04.seq_encode',
    'Lcdb.C04.count_encode',
    'Lcdb.C04.append_ops',
    'Lcdb.C04.iterate_append',
    'Lcdb.C04.prefix_rejected',
    'Lcdb.C04.prefix_applies_prefix',
    'Lcdb.C04.short_rejected',
    'Lcdb.C04.iterate_count',
    'Lcdb.C04.iterate_sound_false',
    'Lcdb.C04Conc.batch_atomic_for_readers',
    'Lcdb.C04Conc.group_preserves_batches',
    'Lcdb.C04Conc.committed_changes_only_in_commit',
]
IMPORTS = ['LcdbModel.Props.C04', 'LcdbModel.Props.C04Conc']
TARGETS = ['LcdbModel.Props.C04', 'LcdbModel.Props.C04Conc', 'conccheck']


def run(tier):
    chk = Check(PID, tier)
    rng = Rng(chk.seed).fork(PID)
    unit = vlib.build_harness('unit', 'asan', exclude=['util/crc32c.c'])
    lean_stage(chk, THEOREMS, IMPORTS, TARGETS)
    big = tier == 'thorough'
    cases = [Case('corpus', r) for r in load_corpus(PID)] + gens.gen_batch(rng, 250 if not big else 5000, big)
    chk.rules.append('batches of 0..60 ops with keys sharing prefixes / empty / 0xff runs, values 0 B..200 KB; append of two batches; every-cut truncations; '
                     'single-byte mutations; arbitrary bytes; non-trivial = response not fail/empty, distinct = distinct (suite, response)')
    run_cases(chk, cases, unit)
    import wl_checks
    wl_checks.c04_part(chk, tier, rng)
    # batches seen whole or not at all by concurrent snapshot readers and scans; every critical section replayed on the Conc model
    import conccheck
    conccheck.conc_part(chk, tier, rng.fork('conc'), {'snapshot', 'snapstable', 'scan', 'final'}, scale=0.5)
    return chk.finish()


def replay(path):
    import json
    rp = json.load(open(path))
    unit = vlib.build_harness('unit', 'asan', exclude=['util/crc32c.c'])
    print(vlib.serve(unit, [rp['request']], vlib.asan_env())[0])
    return 0
