"""Ad-hoc differential run of the Snappy slice: python3 checks/run_snappy.py <seed,seed,...> <n> [big]
(C harness vs Lean driver on gens_snappy.gen_snappy; prints per-suite correspondence and oracle violations)."""
import sys, time
import os
W=os.path.dirname(os.path.dirname(os.path.abspath(__file__)))
sys.path.insert(0,W+'/tools'); sys.path.insert(0,W+'/checks')
import vlib, gens_snappy
from vlib import Rng, Check
from common import run_cases
seeds = [int(a) for a in sys.argv[1].split(',')]
n = int(sys.argv[2]); big = len(sys.argv) > 3 and sys.argv[3] == 'big'
unit = vlib.build_harness('unit','asan',exclude=['util/crc32c.c'])
for sd in seeds:
    t0=time.time()
    rng = Rng(sd).fork('snappy')
    cases = gens_snappy.gen_snappy(rng, n, big)
    t1=time.time()
    chk = Check('SNAPPY','quick')
    c_out, m_out = run_cases(chk, cases, unit)
    bad = [o for o in chk.obligations if not o[1]]
    for o in chk.obligations: print('  ', o[0], o[1], o[2][:200])
    for v in chk.violations[:8]: print('VIOLATION', v[0][:300], v[1].get('request','')[:200])
    suites = {}
    for c in cases: suites[c.suite] = suites.get(c.suite,0)+1
    nonfail = sum(1 for c,o in zip(cases,c_out) if c.suite=='snappy-dec-malformed' and o.startswith('ok'))
    print('seed',sd,'cases',len(cases),'disagree',sum(1 for a,b in zip(c_out,m_out) if a!=b),'violations',len(chk.violations),'nontrivial',len(chk.nontrivial), suites, 'malformed-still-ok', nonfail, 'gen %.1fs run %.1fs'%(t1-t0,time.time()-t1))
