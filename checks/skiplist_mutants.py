#!/usr/bin/env python3
"""mutation sanity of the memtable slice: apply one seeded bug to a scratch copy of /repo (VERIF_REPO points the
build at it), run skiplist_quick.py (seed 1, 800 cases) and report which streams see it.
usage: skiplist_mutants.py [mutant names ...]      (scratch copies under $SKL_MUT_SCRATCH, default /tmp/sl)"""
import os, re, shutil, subprocess, sys
W = os.path.dirname(os.path.dirname(os.path.abspath(__file__)))
SRC_REPO = '/repo'
SCRATCH = os.environ.get('SKL_MUT_SCRATCH', '/tmp/sl')
SEED, N = '1', '800'

# (name, description, expectation, file, old text, new text)
MUTS = [
 ('M1', 'insert: link loop top-down instead of bottom-up', 'equivalent single-threaded', 'src/skiplist.c',
  "  for (i = 0; i < height; i++) {\n    /* set_nb() suffices",
  "  for (i = height - 1; i >= 0; i--) {\n    /* set_nb() suffices"),
 ('M2a', 'insert: prev[i] = head for new levels removed (prev left uninitialised)', 'fault or garbage', 'src/skiplist.c',
  "      prev[i] = list->head;\n", "      ;\n"),
 ('M2b', 'insert: prev[i] = prev[0] for new levels', 'detected', 'src/skiplist.c',
  "      prev[i] = list->head;\n", "      prev[i] = prev[0];\n"),
 ('M3', 'key_after_node: < 0 becomes <= 0', 'detected', 'src/skiplist.c',
  "return (node != NULL) && (ldb_skiplist_compare(list, node->key, key) < 0);",
  "return (node != NULL) && (ldb_skiplist_compare(list, node->key, key) <= 0);"),
 ('M4', 'find_lt: >= 0 becomes > 0 (stops one late: prev stays on its entry)', 'detected', 'src/skiplist.c',
  "    if (next == NULL || ldb_skiplist_compare(list, next->key, key) >= 0) {",
  "    if (next == NULL || ldb_skiplist_compare(list, next->key, key) > 0) {"),
 ('M5', 'memtable_get: compares the whole internal key (okey.size -= 8 removed)', 'detected (everything nf)', 'src/memtable.c',
  "    okey.size -= 8;\n", "    ;\n"),
 ('M6', 'memtable_add: first varint holds key->size instead of key->size + 8', 'detected', 'src/memtable.c',
  "  zp = ldb_varint32_write(zp, ikey_size);\n", "  zp = ldb_varint32_write(zp, key->size);\n"),
 ('M7', 'randheight: one_in(4) becomes one_in(3)', 'detected by dumps / rndh only', 'src/skiplist.c',
  "ldb_rand_one_in(&list->rnd, 4)", "ldb_rand_one_in(&list->rnd, 3)"),
 ('M8', 'find_last: returns at the first NULL next, at any level', 'detected', 'src/skiplist.c',
  "    if (next == NULL) {\n      if (level == 0)\n        return x;", "    if (next == NULL) {\n      if (1)\n        return x;"),
 ('M9', 'rand_next: seed > M becomes seed >= M', 'equivalent (seed == M unreachable)', 'src/util/random.c',
  "  if (rnd->seed > M)\n", "  if (rnd->seed >= M)\n"),
 ('M10', 'skiplist_init: seed 0xdeadbeef becomes 0xdeadbeee', 'detected by dumps only', 'src/skiplist.c',
  "ldb_rand_init(&list->rnd, 0xdeadbeef);", "ldb_rand_init(&list->rnd, 0xdeadbeee);"),
]

LINE = re.compile(r'^\s+(sk-\S+)\s+cases\s+(\d+)\s+distinct responses\s+(\d+)\s+disagreements\s+(\d+)\s+oracle violations\s+(\d+)')


def cache_dirs():
    b = os.path.join(W, '.cache', 'build')
    return set(os.listdir(b)) if os.path.isdir(b) else set()


def run_one(m):
    name, desc, expect, rel, old, new = m
    d = os.path.join(SCRATCH, 'mut_repo_%s' % name)
    shutil.rmtree(d, ignore_errors=True)
    os.makedirs(d)
    shutil.copytree(SRC_REPO + '/src', d + '/src')
    shutil.copytree(SRC_REPO + '/include', d + '/include')
    p = os.path.join(d, rel)
    s = open(p).read()
    assert s.count(old) == 1, 'mutant %s: pattern occurs %d times in %s' % (name, s.count(old), rel)
    open(p, 'w').write(s.replace(old, new))
    assert open(p).read() != s
    before = cache_dirs()
    env = dict(os.environ, VERIF_REPO=d)
    env.setdefault('VERIF_JOBS', '3')
    env.setdefault('SKL_TIMEOUT', '30')      # a mutant may loop forever (M2b does): short per-chunk timeout on the C side
    try:
        r = subprocess.run([sys.executable, os.path.join(W, 'checks', 'skiplist_quick.py'), SEED, N], env=env,
                           stdout=subprocess.PIPE, stderr=subprocess.STDOUT, text=True)
    finally:
        shutil.rmtree(d, ignore_errors=True)
        for e in cache_dirs() - before:         # the mutant's build (content-hash keyed) and its lock file
            q = os.path.join(W, '.cache', 'build', e)
            shutil.rmtree(q, ignore_errors=True) if os.path.isdir(q) else os.remove(q)
    per = {}
    for l in r.stdout.split('\n'):
        mm = LINE.match(l)
        if mm:
            per[mm.group(1)] = (int(mm.group(4)), int(mm.group(5)))
    summ = [l for l in r.stdout.split('\n') if l.startswith('seed')]
    mf = re.search(r'C faults (\d+) \(timeouts (\d+)\); model faults (\d+)', summ[0]) if summ else None
    if not summ:
        return name, desc, expect, 'RUN FAILED', r.stdout[-400:], 0, 0, '?', []
    dis = sum(v[0] for v in per.values())
    vio = sum(v[1] for v in per.values())
    streams = ['%s(%dd/%dv)' % (s[3:], v[0], v[1]) for s, v in sorted(per.items()) if v[0] or v[1]]
    first = [l for l in r.stdout.split('\n') if l.startswith('ORACLE VIOLATION')][:1]
    return name, desc, expect, 'DETECTED' if r.returncode != 0 else 'not detected', ' '.join(streams) or '-', dis, vio, '%s(%s)' % (mf.group(1), mf.group(2)) if mf else '?', first


def main():
    which = sys.argv[1:]
    rows = []
    for m in MUTS:
        if which and m[0] not in which:
            continue
        row = run_one(m)
        rows.append(row)
        print('%-4s %-12s disagreements %4d  oracle violations %4d  C faults(timeouts) %7s  %s' % (row[0], row[3], row[5], row[6], row[7], row[4]), flush=True)
        for f in row[8]:
            print('       first: %s' % f[:260], flush=True)
    print()
    print('%-4s | %-74s | %-34s | %-12s | %5s | %5s | %8s | %s' % ('mut', 'change', 'expected', 'result', 'disag', 'viol', 'faults(t/o)', 'streams (d = C/model disagreements, v = oracle violations)'))
    for row in rows:
        print('%-4s | %-74s | %-34s | %-12s | %5d | %5d | %8s | %s' % (row[0], row[1], row[2], row[3], row[5], row[6], row[7], row[4]))


if __name__ == '__main__':
    main()
