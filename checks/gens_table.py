"""Request generators with direct property oracles for the whole-table slice
(ldb_tablegen_*, ldb_table_open, two-level iterator, ldb_table_internal_get, ldb_read_block).

Every oracle is computed here in Python from the entry list, the options and (for uncompressed
tables) an independent reference builder; none of them looks at the Lean model's answer.

Requests (see lean/Driver/Table.lean, harness/u_table.h):
  tbuild <opts> <entries>                    -> showBytes(file) len
  tscan  <opts> <entries> <verify> <paranoid> -> <entries|#n:fnv> <status>   | open:<status>
  tops   <opts> <entries> <ops>              -> states
  tget   <opts> <entries> <ikey>             -> <status> found <k> <v> | <status> none
  tmut   <opts> <entries> <muts> <verify> <paranoid> scan | get <ikey> | ops <ops>
                                             -> showBytes(mutated file) + the action's answer
opts = bs=<n>,ri=<n>,comp=<0|1>,fb=<bits|0>,cmp=<bw|rev|len>; entries are internal keys (>= 8 bytes)."""
import proto
import gens
import gens_block
import gens_filter
from gens_block import ucmp, kcmp, Cursor
from common import Case

MAXSEQ = (1 << 56) - 1
FILTER_KEY = b'filter.leveldb.BuiltinBloomFilter2'
MAGIC = 0xdb4775248b80fb57

# ------------------------------------------------------------------ crc32c (reference)
_CRC_TABLE = []
for _i in range(256):
    _c = _i
    for _ in range(8):
        _c = (_c >> 1) ^ 0x82F63B78 if _c & 1 else _c >> 1
    _CRC_TABLE.append(_c)


def crc32c(data, crc=0):
    c = crc ^ 0xFFFFFFFF
    t = _CRC_TABLE
    for b in data:
        c = t[(c ^ b) & 0xFF] ^ (c >> 8)
    return c ^ 0xFFFFFFFF


def crc_mask(c):
    return (((c >> 15) | (c << 17)) + 0xa282ead8) & 0xFFFFFFFF


def trailer(contents, ty):
    return bytes([ty]) + crc_mask(crc32c(bytes([ty]), crc32c(contents))).to_bytes(4, 'little')


# ------------------------------------------------------------------ reference builder (uncompressed tables)
def enc_handle(off, size):
    return gens.py_varint(off) + gens.py_varint(size)


def bw_sep(start, limit):
    m = min(len(start), len(limit))
    d = 0
    while d < m and start[d] == limit[d]:
        d += 1
    if d >= m:
        return start
    b = start[d]
    if b < 0xff and b + 1 < limit[d]:
        return start[:d] + bytes([b + 1])
    return start


def bw_succ(k):
    for i, b in enumerate(k):
        if b != 0xff:
            return k[:i] + bytes([b + 1])
    return k


def ik_sep(cmp_name, start, limit):
    if cmp_name != 'bw':
        return start
    us, ul = start[:-8], limit[:-8]
    t = bw_sep(us, ul)
    if len(t) < len(us) and us < t:
        return gens.ikey(t, MAXSEQ, 1)
    return start


def ik_succ(cmp_name, k):
    if cmp_name != 'bw':
        return k
    u = k[:-8]
    t = bw_succ(u)
    if len(t) < len(u) and u < t:
        return gens.ikey(t, MAXSEQ, 1)
    return k


class PyBlockGen:
    def __init__(self, ri):
        self.ri = ri
        self.reset()

    def reset(self):
        self.buf = bytearray()
        self.restarts = [0]
        self.counter = 0
        self.last = b''

    def add(self, k, v):
        shared = 0
        if self.counter < self.ri:
            shared = gens_block.shared_len(self.last, k)
        else:
            self.restarts.append(len(self.buf))
            self.counter = 0
        self.buf += gens.py_varint(shared) + gens.py_varint(len(k) - shared) + gens.py_varint(len(v))
        self.buf += k[shared:] + v
        self.last = k
        self.counter += 1

    def estimate(self):
        return len(self.buf) + 4 * len(self.restarts) + 4

    def finish(self):
        return bytes(self.buf) + b''.join((r & 0xFFFFFFFF).to_bytes(4, 'little') for r in self.restarts) + len(self.restarts).to_bytes(4, 'little')


class Opts:
    def __init__(self, bs, ri, comp, fb, cmp_name):
        self.bs, self.ri, self.comp, self.fb, self.cmp = bs, ri, comp, fb, cmp_name

    def arg(self):
        return 'bs=%d,ri=%d,comp=%d,fb=%d,cmp=%s' % (self.bs, self.ri, self.comp, self.fb, self.cmp)


def py_table(o, ents):
    """reference file bytes and layout [(kind, offset, contents size)] of an UNCOMPRESSED table
    (with compression the reference is an upper bound on the length only)"""
    file = bytearray()
    layout = []
    data, index = PyBlockGen(o.ri), PyBlockGen(1)
    state = {'pending': None, 'last': b''}
    fblocks = [(0, [])] if o.fb else None

    def write_raw(contents, kind):
        off = len(file)
        file.extend(contents + trailer(contents, 0))
        layout.append((kind, off, len(contents)))
        return (off, len(contents))

    def flush():
        if not data.buf:
            return
        h = write_raw(data.finish(), 'data')
        data.reset()
        state['pending'] = h
        if fblocks is not None:
            fblocks.append((len(file), []))

    for k, _, v in ents:
        if state['pending'] is not None:
            index.add(ik_sep(o.cmp, state['last'], k), enc_handle(*state['pending']))
            state['pending'] = None
        if fblocks is not None:
            fblocks[-1][1].append(k)
        state['last'] = k
        data.add(k, v)
        if data.estimate() >= o.bs:
            flush()
    flush()
    meta = PyBlockGen(o.ri)
    if fblocks is not None:
        fh = write_raw(gens_filter.py_filter_build(o.fb, fblocks, strip=True), 'filter')
        meta.add(FILTER_KEY, enc_handle(*fh))
    mh = write_raw(meta.finish(), 'meta')
    if state['pending'] is not None:
        index.add(ik_succ(o.cmp, state['last']), enc_handle(*state['pending']))
    ih = write_raw(index.finish(), 'index')
    foot = enc_handle(*mh) + enc_handle(*ih)
    foot += b'\0' * (40 - len(foot)) + MAGIC.to_bytes(8, 'little')
    layout.append(('footer', len(file), 48))
    file.extend(foot)
    return bytes(file), layout


# ------------------------------------------------------------------ inputs
def rand_opts(rng, comp=None, small_blocks=False):
    k = rng.below(20)
    if small_blocks or k < 6:
        bs = rng.choice([64, 256, 64, 100, 1, 300])
    elif k < 12:
        bs = rng.choice([1024, 2048, 4096])
    elif k < 16:
        bs = rng.choice([16384, 65536])
    else:
        bs = rng.range(0, 5000)
    ri = rng.choice([1, 1, 2, 3, 4, 8, 16, 16, 32, rng.range(1, 32)])
    if comp is None:
        comp = rng.below(2)
    fb = rng.choice([0, 0, 1, 10, 10, 20])
    return Opts(bs, ri, comp, fb, rng.choice(['bw', 'bw', 'rev', 'len']))


def rand_user_keys(rng, n):
    style = rng.below(8)
    keys = set()
    tries = 0
    while len(keys) < n and tries < 20 * n + 50:
        tries += 1
        if style == 6:            # dense counter keys
            keys.add(b'k%06d' % len(keys))
        elif style == 7:          # long shared prefix, differing tails, some 0xff
            keys.add(b'user/profile/settings/' + bytes([rng.choice([0x61, 0x62, 0xff]) for _ in range(rng.range(0, 6))]))
        else:
            keys.add(gens_block.user_key(rng, style if style < 6 else rng.below(6)))
    if rng.chance(1, 6):
        keys.add(b'')
    return sorted(keys)       # set order depends on PYTHONHASHSEED: keep the generator reproducible


def value_arg(rng, big, budget):
    """(argument text, bytes); `budget` bounds the length"""
    k = rng.below(40)
    if k < 8:
        return '-', b''
    if k < 20:
        b = rng.bytes(rng.range(1, 12))
        return proto.arg(b), b
    if k < 28:
        n = min(budget, rng.choice([1, 50, 100, 127, 128, 129, 300, 700]))
        a = '@%d~%d' % (rng.below(1 << 20), n)
    elif k < 36:            # compressible
        n = min(budget, rng.choice([60, 200, 500, 1000, 3000]))
        a = '%%%d~%d~%d' % (rng.below(1 << 20), n, rng.choice([1, 3, 7, 40]))
    elif k < 38:
        n = min(budget, rng.choice([5000, 20000, 70000]) if not big else rng.choice([100000, 300000]))
        a = rng.choice(['@%d~%d', '%%%d~%d~97']) % (rng.below(1 << 20), n)
    else:
        n = min(budget, 100000 if not big else 1048576)
        a = rng.choice(['@%d~%d', '%%%d~%d~1000']) % (rng.below(1 << 20), n)
    return a, proto.parse_bytes(a)


def gen_entries(rng, cmp_name, size_class=None, big=False):
    """strictly sorted (internal comparator over cmp_name) list of (ikey, value_arg, value_bytes)"""
    if size_class is None:
        size_class = rng.choice([0, 0, 1, 1, 1, 1, 1, 2, 2, 2, 2, 3, 3, 4])
    if size_class == 0:
        nu = rng.choice([0, 1, 1, 2, 3])
    elif size_class == 1:
        nu = rng.range(3, 20)
    elif size_class == 2:
        nu = rng.range(20, 120)
    elif size_class == 3:
        nu = rng.range(120, 600)
    else:
        nu = rng.range(600, 2000)
    ukeys = rand_user_keys(rng, nu)
    budget = (3000000 if big else 400000)
    small_values = size_class >= 3
    ents = []
    seen = set()
    for u in ukeys:
        nv = rng.choice([1, 1, 1, 2, 3]) if len(ents) < 2990 else 1
        for _ in range(nv):
            if len(ents) >= 3000:
                break
            seq = rng.choice([rng.below(100), rng.below(1 << 20), rng.below(1 << 56), MAXSEQ, 0])
            ty = rng.choice([1, 1, 1, 0])
            if (u, seq, ty) in seen or (u, seq, 1 - ty) in seen:
                continue
            seen.add((u, seq, ty))
            if ty == 0 and rng.chance(3, 4):
                va, vb = '-', b''
            elif small_values and rng.chance(9, 10):
                vb = rng.bytes(rng.below(10))
                va = proto.arg(vb)
            else:
                va, vb = value_arg(rng, big, max(0, budget))
            budget -= len(vb)
            ents.append((gens.ikey(u, seq, ty), va, vb))
    import functools
    ents.sort(key=functools.cmp_to_key(lambda a, b: kcmp(cmp_name, True, a[0], b[0])))
    return ents


def entries_arg(ents):
    return gens_block.entries_arg(ents)


def render_entries(ents):
    """the scan rendering of harness and driver"""
    if not ents:
        return '.'
    txt = ';'.join('%s=%s' % (proto.show_bytes(k), proto.show_bytes(v)) for k, _, v in ents)
    if len(ents) <= 6:
        return txt
    return '#%d:%016x' % (len(ents), proto.fnv64(txt.encode()))


def lookup_target(rng, ents, cmp_name):
    """internal lookup key (user key, snapshot sequence, SEEK type)"""
    k = rng.below(10)
    if ents and k < 6:
        e = rng.choice(ents)[0]
        u = e[:-8]
        seq = int.from_bytes(e[-8:], 'little') >> 8
        j = rng.below(5)
        if j == 0:
            s = seq
        elif j == 1:
            s = MAXSEQ
        elif j == 2:
            s = max(0, seq - 1)
        elif j == 3:
            s = min(MAXSEQ, seq + 1)
        else:
            s = rng.below(1 << 56)
        return gens.ikey(u, s, 1)
    if ents and k < 8:
        u = rng.choice(ents)[0][:-8]
        j = rng.below(3)
        if j == 0:
            u = u + bytes([rng.choice([0, 0xff, 0x61])])
        elif j == 1 and u:
            u = u[:-1]
        elif u:
            u = u[:-1] + bytes([(u[-1] + rng.choice([1, 255])) % 256])
        return gens.ikey(u, rng.choice([MAXSEQ, rng.below(1 << 30)]), 1)
    if k == 8:
        return gens.ikey(b'', MAXSEQ, 1)
    return gens.ikey(gens_block.user_key(rng, rng.below(6)), MAXSEQ, 1)


def first_ge(ents, cmp_name, t):
    for e in ents:
        if kcmp(cmp_name, True, e[0], t) >= 0:
            return e
    return None


# ------------------------------------------------------------------ oracles
def build_oracle(o, ents):
    ref, _ = py_table(o, ents)
    if o.comp == 0:
        want = '%s %d' % (proto.show_bytes(ref), len(ref))

        def orc(resp, want=want):
            return None if resp == want else 'uncompressed table differs from the reference layout: got %s, reference %s' % (resp, want)
        return orc

    def orc_c(resp, n=len(ref)):
        try:
            ln = int(resp.split(' ')[1])
        except (IndexError, ValueError):
            return 'unexpected response %s' % resp[:100]
        return None if 48 <= ln <= n else 'compressed table (%d bytes) longer than the uncompressed reference (%d)' % (ln, n)
    return orc_c


def scan_oracle(ents):
    want = render_entries(ents) + ' ok'

    def orc(resp, want=want):
        return None if resp == want else 'scan of a freshly built table: got %s, entries written give %s' % (resp[:200], want[:200])
    return orc


def get_oracle(ents, cmp_name, target):
    e = first_ge(ents, cmp_name, target)
    present = e is not None and e[0][:-8] == target[:-8]
    want_found = 'ok found %s %s' % (proto.show_bytes(e[0]), proto.show_bytes(e[2])) if e is not None else None

    def orc(resp):
        if present:
            return None if resp == want_found else 'lookup of a present key (%s): got %s, expected %s' % (target.hex(), resp[:200], want_found)
        if resp == 'ok none':
            return None
        # an absent key: the table may hand back the next entry (save_value rejects it by user key) ...
        if want_found is not None and resp == want_found:
            return None
        return 'lookup of an absent key (%s): got %s; allowed: "ok none"%s' % (target.hex(), resp[:200], ' or ' + want_found if want_found else '')
    return orc


def is_error(ans):
    """the action's answer reports an error"""
    return ans.startswith('open:') or ans.endswith(' corrupt') or ans.endswith(' ioerr') or ans.startswith('corrupt ') or ans.startswith('ioerr ') or ',corrupt' in ans or ',ioerr' in ans


def split_mut_resp(resp):
    i = resp.find(' ')
    return (resp[:i], resp[i + 1:]) if i >= 0 else (resp, '')


def c11_oracle(original, what):
    """verify + paranoid on an altered file: an error, or exactly the answer of the intact file"""
    def orc(resp):
        _, ans = split_mut_resp(resp)
        if ans == original or is_error(ans):
            return None
        return 'C11 %s on an altered table: no error reported and the answer differs: got %s, intact table gives %s' % (what, ans[:200], original[:200])
    return orc


def must_detect_oracle(what):
    def orc(resp):
        _, ans = split_mut_resp(resp)
        return None if is_error(ans) else 'alteration of %s not detected: %s' % (what, ans[:200])
    return orc


def both(*oracles):
    def orc(resp):
        for f in oracles:
            r = f(resp)
            if r:
                return r
        return None
    return orc


def nofault_oracle(resp):
    return 'model/harness trouble: ' + resp[:200] if ('disagree' in resp or 'harness' in resp) else None


KNOWN_FOOTER = ('T-F1 (format limitation, same as upstream LevelDB): the 48-byte footer is not checksummed; when its '
                'index/metaindex handles are rewritten to name another checksum-valid block of the same file (e.g. index := '
                'metaindex block) a paranoid, checksum-verifying reader opens the table and silently returns an empty or '
                'truncated view with status ok')


KNOWN_HITS = []


def known_table_finding(case, resp, why):
    """for common.run_cases(known=...): violations of the C11 oracle in the crafted-footer suite are the known limitation"""
    if case.suite == 'table-mut-footer' and why and 'C11' in why:
        KNOWN_HITS.append(case.req)
        return KNOWN_FOOTER
    return None


# ------------------------------------------------------------------ suites
def gen_table_build(rng, n, big=False):
    cases = []
    for _ in range(n):
        o = rand_opts(rng)
        ents = gen_entries(rng, o.cmp, big=big)
        cases.append(Case('table-build', 'tbuild %s %s' % (o.arg(), entries_arg(ents)), oracle=build_oracle(o, ents)))
    return cases


def gen_table_scan(rng, n, big=False):
    cases = []
    for _ in range(n):
        o = rand_opts(rng)
        ents = gen_entries(rng, o.cmp, big=big)
        cases.append(Case('table-scan', 'tscan %s %s %d %d' % (o.arg(), entries_arg(ents), rng.below(2), rng.below(2)), oracle=scan_oracle(ents)))
    return cases


def table_walk(rng, ents, nops):
    return gens_block.random_walk(rng, ents, True, nops, allow_short=rng.chance(1, 8))


def gen_table_ops(rng, n):
    cases = []
    for i in range(n):
        o = rand_opts(rng, small_blocks=rng.chance(1, 2))
        ents = gen_entries(rng, o.cmp, size_class=rng.choice([0, 1, 1, 2, 2, 3]))
        k = i % 4
        if k == 0:      # full forward and backward scans
            ops = ['F'] + ['N'] * (len(ents) + 1) + ['L'] + ['P'] * (len(ents) + 1)
            ops = ops[:400]
        elif k == 1:    # seek to every key / between keys
            ops = []
            for e in (ents if len(ents) <= 40 else [rng.choice(ents) for _ in range(40)]):
                ops.append('S:' + proto.arg(e[0]))
                if rng.chance(1, 2):
                    ops.append(rng.choice(['N', 'P']))
        else:
            ops = table_walk(rng, ents, rng.range(5, 60))
        want = gens_block.expected(ents, o.cmp, True, ops)
        cases.append(Case('table-ops', 'tops %s %s %s' % (o.arg(), entries_arg(ents), ','.join(ops) if ops else '.'),
                          oracle=gens_block._walk_oracle('table iterator', want)))
    return cases


def gen_table_get(rng, n):
    cases = []
    while len(cases) < n:
        o = rand_opts(rng, small_blocks=rng.chance(1, 2))
        ents = gen_entries(rng, o.cmp, size_class=rng.choice([0, 1, 1, 2, 2, 3]))
        ea = entries_arg(ents)
        for _ in range(rng.range(2, 6)):
            t = lookup_target(rng, ents, o.cmp)
            cases.append(Case('table-get', 'tget %s %s %s' % (o.arg(), ea, proto.arg(t)), oracle=get_oracle(ents, o.cmp, t)))
    return cases[:n]


def rand_mutations(rng, o, ents, ref, layout):
    """(mutation list, description of a guaranteed detection or None).  `layout` is exact for comp=0."""
    n = len(ref)
    exact = o.comp == 0
    k = rng.below(20)
    if exact and k < 8:
        # one byte of one checksummed block (contents, type byte or stored crc)
        blocks = [b for b in layout if b[0] != 'footer']
        kind, off, size = rng.choice(blocks)
        pos = off + rng.below(size + 5)
        if rng.chance(1, 5):
            pos = off + size + rng.below(5)
        m = 'x:%d:%d' % (pos, rng.range(1, 255)) if rng.chance(3, 4) else 's:%d:%d' % (pos, ref[pos] ^ rng.range(1, 255))
        return [m], kind
    if exact and k < 10:
        # footer: padding (irrelevant) or a handle byte / the magic
        foff = layout[-1][1]
        pos = foff + rng.below(48)
        return ['x:%d:%d' % (pos, rng.range(1, 255))], None
    if exact and k == 10 and o.fb:
        # zero the bloom bits of the first filter but keep its k byte: every key of the first 2 KiB is
        # rejected by a reader that accepts the block (only a non-paranoid reader may)
        fl = [b for b in layout if b[0] == 'filter'][0]
        first = [e[0] for e in ents]            # upper bound on the keys of filter 0
        nbits_bytes = 8
        if fl[2] > 10:
            # length of filter 0 = offset of filter 1 (or the array offset): read it from the reference bytes
            arr = int.from_bytes(ref[fl[1] + fl[2] - 5:fl[1] + fl[2] - 1], 'little')
            nf = (fl[2] - 5 - arr) // 4
            end0 = int.from_bytes(ref[fl[1] + arr + 4:fl[1] + arr + 8], 'little') if nf > 1 else arr
            if end0 > 1:
                return ['z:%d:%d' % (fl[1], end0 - 1)], 'filter-bits'
        return ['x:%d:%d' % (fl[1], 255)], 'filter'
    if exact and k == 11:
        # crafted footer: the 40 handle bytes are replaced by handles of our choosing
        foff = layout[-1][1]
        blocks = [b for b in layout if b[0] != 'footer']
        meta = [b for b in layout if b[0] == 'meta'][0]
        index = [b for b in layout if b[0] == 'index'][0]
        j = rng.below(8)
        mh, ih = (meta[1], meta[2]), (index[1], index[2])
        if j == 0:                              # index handle names another block (valid crc)
            b = rng.choice(blocks)
            ih = (b[1], b[2])
        elif j == 1:                            # index block would end one byte past the end of the file
            ih = (index[1], n + 1 - 5 - index[1])
        elif j == 2:                            # ... exactly at the end of the file
            ih = (index[1], n - 5 - index[1])
        elif j == 3:                            # size overflow check
            ih = (index[1], rng.choice([(1 << 64) - 1, (1 << 64) - 5, (1 << 64) - 6, (1 << 63)]))
        elif j == 4:                            # offset far outside
            ih = (rng.choice([n, n + 1, 1 << 40, (1 << 63) - 1, 1 << 63, (1 << 64) - 1]), index[2])
        elif j == 5:                            # metaindex handle names another block / garbage
            b = rng.choice(blocks)
            mh = rng.choice([(b[1], b[2]), (meta[1], n + 1 - 5 - meta[1]), (1 << 50, 7), (meta[1], (1 << 64) - 1)])
        elif j == 6:                            # both swapped
            mh, ih = ih, mh
        else:                                   # index handle size off by one
            ih = (index[1], index[2] + rng.choice([1, -1]))
        if ih[1] < 0:
            ih = (ih[0], 0)
        enc = enc_handle(*mh) + enc_handle(*ih)
        enc += b'\0' * (40 - len(enc))
        ms = ['s:%d:%d' % (foff + i, enc[i]) for i in range(40) if enc[i] != ref[foff + i]]
        return (ms if ms else ['s:%d:%d' % (foff, ref[foff])]), 'footer-crafted'
    if k < 13:
        return ['e:%d:%d' % (rng.below(min(48, n)), rng.range(1, 255))], None
    if k < 14:
        return ['t:%d' % rng.choice([0, 1, 47, 48, n - 1, max(0, n - 48), max(0, n - 49), rng.below(n + 1)])], None
    if k < 16:
        a = rng.below(n)
        return ['z:%d:%d' % (a, rng.choice([1, 8, 512, 4096, n]))], None
    if k < 18:
        return ['x:%d:%d' % (rng.below(n), rng.range(1, 255))], None
    ms = []
    for _ in range(rng.range(2, 5)):
        ms.append(rng.choice(['x:%d:%d' % (rng.below(n), rng.range(1, 255)), 'e:%d:%d' % (rng.below(min(n, 200)), rng.range(1, 255)),
                              's:%d:%d' % (rng.below(n), rng.below(256))]))
    return ms, None


def gen_table_mut(rng, n):
    cases = []
    while len(cases) < n:
        o = rand_opts(rng, small_blocks=rng.chance(1, 2))
        ents = gen_entries(rng, o.cmp, size_class=rng.choice([0, 1, 1, 2, 2, 2, 3]))
        ea = entries_arg(ents)
        ref, layout = py_table(o, ents)
        for _ in range(rng.range(2, 5)):
            ms, hit = rand_mutations(rng, o, ents, ref, layout)
            strict = rng.chance(3, 5)
            verify, paranoid = (1, 1) if strict else (rng.below(2), rng.below(2))
            a = rng.below(10)
            if hit == 'filter-bits' and ents:
                a = 6
            if a < 5:
                action, original, what = 'scan', render_entries(ents) + ' ok', 'scan'
            elif a < 8:
                t = lookup_target(rng, ents, o.cmp)
                if hit == 'filter-bits':        # a present key of the first data blocks, newest version
                    t = gens.ikey(ents[rng.choice([0, 0, rng.below(min(len(ents), 8))])][0][:-8], MAXSEQ, 1)
                e = first_ge(ents, o.cmp, t)
                action, what = 'get %s' % proto.arg(t), 'get'
                # the intact table's answer is layout dependent for absent keys: only usable when present
                original = 'ok found %s %s' % (proto.show_bytes(e[0]), proto.show_bytes(e[2])) if e is not None and e[0][:-8] == t[:-8] else None
            else:
                ops = table_walk(rng, ents, rng.range(3, 25))
                ops = [x for x in ops if not (':' in x and len(proto.parse_bytes(x.split(':')[1])) < 8)]
                if not ops:
                    ops = ['F']
                action, original, what = 'ops %s' % ','.join(ops), gens_block.expected(ents, o.cmp, True, ops), 'iteration'
            oracles = [nofault_oracle]
            if verify and paranoid and original is not None:
                oracles.append(c11_oracle(original, what))
            elif verify and paranoid and what == 'get':
                # absent key: "ok none" or an error or the next entry
                pass
            if hit == 'data' and verify and action == 'scan':
                oracles.append(must_detect_oracle('a data block byte (checksummed)'))
            if hit == 'index' and paranoid:
                oracles.append(must_detect_oracle('an index block byte (checksummed, paranoid open)'))
            suite = 'table-mut-strict' if (verify and paranoid) else 'table-mut-lax'
            if hit == 'footer-crafted' and verify and paranoid:
                # the footer carries no checksum: handles rewritten to name OTHER checksum-valid blocks are
                # outside what C11 can promise (hypothesis `AlteredOK.footer` of altered_table_partial);
                # kept as a suite of its own so that the known limitation KNOWN_FOOTER is reported, not hidden
                suite = 'table-mut-footer'
            cases.append(Case(suite, 'tmut %s %s %s %d %d %s' % (o.arg(), ea, ','.join(ms) if ms else '.', verify, paranoid, action),
                              oracle=both(*oracles), meta={'hit': hit}))
    return cases[:n]


def gen_table_misc(rng, n):
    """requests outside the domain (both sides answer bad-op) and degenerate options"""
    cases = []
    for _ in range(n):
        k = rng.below(4)
        if k == 0:      # key shorter than 8 bytes
            cases.append(Case('table-misc', 'tbuild bs=64,ri=1,comp=0,fb=0,cmp=bw %s=-' % proto.arg(rng.bytes(rng.below(8)))))
        elif k == 1:    # restart interval 0
            cases.append(Case('table-misc', 'tbuild bs=64,ri=0,comp=0,fb=0,cmp=bw .'))
        elif k == 2:    # empty tables under every option
            o = rand_opts(rng)
            cases.append(Case('table-misc', 'tscan %s . %d %d' % (o.arg(), rng.below(2), rng.below(2)), oracle=scan_oracle([])))
        else:
            o = rand_opts(rng)
            cases.append(Case('table-misc', 'tops %s . F,L,S:%s' % (o.arg(), proto.arg(gens.ikey(b'a', 1, 1))),
                              oracle=gens_block._walk_oracle('empty table', '0,-,-,ok;0,-,-,ok;0,-,-,ok')))
    return cases


def gen_table(rng, n, big=False):
    """about n cases over all suites"""
    cases = []
    cases += gen_table_build(rng.fork('build'), max(1, n * 2 // 20), big)
    cases += gen_table_scan(rng.fork('scan'), max(1, n * 3 // 20), big)
    cases += gen_table_ops(rng.fork('ops'), max(1, n * 4 // 20))
    cases += gen_table_get(rng.fork('get'), max(1, n * 4 // 20))
    cases += gen_table_mut(rng.fork('mut'), max(1, n * 6 // 20))
    cases += gen_table_misc(rng.fork('misc'), max(1, n // 20))
    return cases
