#!/usr/bin/env python3
"""Differential run of the writable-file slice (util/env_unix_impl.h ldb_write / ldb_wfile_*, ldb_sync_dir, env.c
ldb_write_file, filename.c ldb_set_current_file, log_writer.c over a file): C harness (ASan/UBSan, NDEBUG) under a
scripted operating system vs. the Lean model, plus the property oracles of gens_wfile.py.
usage: wfile_quick.py [seed [ncases]]   (lake build first)"""
import os, sys, time
from collections import Counter
HERE = os.path.dirname(os.path.abspath(__file__))
sys.path.insert(0, os.path.join(os.path.dirname(HERE), 'tools'))
sys.path.insert(0, HERE)
import vlib, gens_wfile
from vlib import Rng, Check
from common import run_cases


def main():
    seed = int(sys.argv[1]) if len(sys.argv) > 1 else 1
    n = int(sys.argv[2]) if len(sys.argv) > 2 else 2000
    cases = gens_wfile.gen_wfile(Rng(seed), n)
    unit = vlib.build_harness('unit', 'asan', exclude=['util/crc32c.c'])
    chk = Check('WFILE', 'quick')
    t = time.time()
    c_out, m_out = run_cases(chk, cases, unit)
    bad = [o for o in chk.obligations if not o[1]]
    for o in bad[:10]:
        print('DISAGREEMENT', o)
    for v in chk.violations[:10]:
        print('ORACLE VIOLATION', v[0][:600], v[1].get('request', '')[:600])
    ndis = sum(1 for a, b in zip(c_out, m_out) if a != b)
    print('seed %d: %d cases %s; disagreements %d (in %d suites); oracle violations %d; C faults %d; model faults %d; bad-op %d; '
          'distinct responses %d; distribution %s; %.1fs'
          % (seed, len(cases), dict(Counter(c.suite for c in cases)), ndis, len(bad), len(chk.violations),
             sum(1 for r in c_out if r and r.startswith('fault')), sum(1 for r in m_out if r and 'fault' in r),
             sum(1 for r in c_out if r == 'bad-op'), len(set(c_out)), gens_wfile.distribution(cases, c_out), time.time() - t))
    return 1 if bad or chk.violations else 0


if __name__ == '__main__':
    sys.exit(main())
