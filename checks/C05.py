"""C05 — Recovery always succeeds and is coherent"""
import crashcheck

PID = 'C05'
TAGS = {'crashopen', 'crashview', 'crashinvented', 'crashfollow', 'crashnested', 'recoverynumbers', 'recover', 'conforms'}
THEOREMS = [
    'Lcdb.C05.recover_subset',
    'Lcdb.C05.recover_subset_filter',
    'Lcdb.C05.recover_sublist',
    'Lcdb.C05.recover_idempotent_partial',
    'Lcdb.C05.recover_idempotent_kill_partial',
    'Lcdb.C05.crash_versions_step',
    'Lcdb.C05.recovery_crash_versions_partial',
    'Lcdb.C02.crash_image_readable',
]
IMPORTS = ['LcdbModel.Props.C05']
TARGETS = ['LcdbModel.Props.C05']


def run(tier):
    return crashcheck.run_crash(PID, tier, TAGS, THEOREMS, IMPORTS, TARGETS, '0134', 'nested', quick=(6, 30, 16), thorough=(30, 60, 50))


def replay(path):
    return crashcheck.replay(PID, path)
