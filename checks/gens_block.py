"""Request generators with direct property oracles for the table-block slice
(block builder, ldb_block_init, block iterator, generic seek helpers).

Every oracle is computed here in Python from the entry list and the comparator; none of them
looks at the Lean model's answer."""
import functools
import proto
import gens
from common import Case

CMPS = ('bw', 'rev', 'len')


# ------------------------------------------------------------------ reference comparators
def _c3(a, b):
    return -1 if a < b else (1 if a > b else 0)


def ucmp(name, a, b):
    if name == 'bw':
        return _c3(a, b)
    if name == 'rev':
        return _c3(b, a)
    if len(a) != len(b):
        return _c3(len(a), len(b))
    return _c3(a, b)


def kcmp(name, internal, a, b):
    """comparator the block iterator is created with"""
    if not internal:
        return ucmp(name, a, b)
    r = ucmp(name, a[:-8], b[:-8])
    if r:
        return r
    return _c3(int.from_bytes(b[-8:], 'little'), int.from_bytes(a[-8:], 'little'))


# ------------------------------------------------------------------ reference builder
def shared_len(a, b):
    n = 0
    while n < len(a) and n < len(b) and a[n] == b[n]:
        n += 1
    return n


def py_block(interval, entries):
    buf = bytearray()
    restarts = [0]
    counter = 0
    last = b''
    for k, v in entries:
        shared = 0
        if counter < interval:
            shared = shared_len(last, k)
        else:
            restarts.append(len(buf))
            counter = 0
        buf += gens.py_varint(shared) + gens.py_varint(len(k) - shared) + gens.py_varint(len(v))
        buf += k[shared:] + v
        last = k
        counter += 1
    data_end = len(buf)
    for r in restarts:
        buf += (r & 0xFFFFFFFF).to_bytes(4, 'little')
    buf += len(restarts).to_bytes(4, 'little')
    return bytes(buf), restarts, data_end


def entry_offsets(interval, entries):
    """offsets of every entry start in the built block"""
    offs = []
    for i in range(len(entries) + 1):
        offs.append(py_block(interval, entries[:i])[2])
    return offs


# ------------------------------------------------------------------ key / entry generation
def user_key(rng, style):
    if style == 0:      # long shared prefixes
        return b'prefix/common/part/' * rng.range(1, 3) + bytes([rng.choice([0x61, 0x62, 0x7a]) for _ in range(rng.below(4))])
    if style == 1:      # 0xff runs
        return bytes([0xff] * rng.below(6)) + rng.bytes(rng.below(2))
    if style == 2:      # tiny alphabet, many prefixes of one another
        return bytes([rng.choice([0x00, 0x61, 0x62, 0xff]) for _ in range(rng.below(6))])
    if style == 3:
        return rng.bytes(rng.below(24))
    if style == 4:      # keys longer than 127 / 128 bytes (2-byte varints)
        return b'L' * rng.choice([120, 126, 127, 128, 129, 200]) + rng.bytes(rng.below(3))
    return gens.rand_key(rng)


def value_arg(rng, big):
    k = rng.below(20)
    if k < 4:
        return '-'
    if k < 12:
        return proto.arg(rng.bytes(rng.range(1, 12)))
    if k < 17:
        return '@%d~%d' % (rng.below(1 << 20), rng.choice([1, 100, 124, 125, 126, 127, 128, 129, 300]))
    if big:
        return '@%d~%d' % (rng.below(1 << 20), rng.choice([4999, 5000, 16383, 16384, rng.below(5000)]))
    return '@%d~%d' % (rng.below(1 << 20), rng.below(600))


def gen_entries(rng, cmp_name, internal, size_class=None):
    """strictly sorted (w.r.t. the iterator's comparator) list of (key, value_arg, value_bytes)"""
    if size_class is None:
        size_class = rng.choice([0, 0, 0, 0, 0, 0, 1, 1, 1, 1, 1, 1, 1, 1, 2, 2, 2, 3])
    if size_class == 0:
        n = rng.choice([0, 1, 1, 2, 2, 3])
    elif size_class == 1:
        n = rng.range(3, 14)
    elif size_class == 2:
        n = rng.range(15, 70)
    else:
        n = rng.range(71, 400)
    big = rng.chance(1, 6) and n <= 40
    style = rng.below(7)
    keys = set()
    tries = 0
    while len(keys) < n and tries < 8 * n + 20:
        tries += 1
        st = style if style < 6 else rng.below(6)
        u = user_key(rng, st)
        if internal:
            if keys and rng.chance(1, 3):
                u = rng.choice(sorted(keys))[:-8]          # same user key, another sequence
            k = gens.ikey(u, rng.choice([0, 1, 2, 255, 256, (1 << 56) - 1, rng.below(1 << 20)]), rng.choice([0, 1]))
        else:
            k = u
        keys.add(k)
    if not internal and n > 0 and rng.chance(1, 4):
        keys.add(b'')                                   # the empty key
    ks = sorted(keys, key=functools.cmp_to_key(lambda a, b: kcmp(cmp_name, internal, a, b)))
    out = []
    for k in ks:
        va = value_arg(rng, big)
        out.append((k, va, proto.parse_bytes(va)))
    return out


def entries_arg(ents):
    return ';'.join('%s=%s' % (proto.arg(k), va) for k, va, _ in ents) if ents else '.'


# ------------------------------------------------------------------ cursor semantics over the sorted list
class Cursor:
    """what an iterator over the sorted entry list has to do (independent of block layout)"""

    def __init__(self, ents, cmp_name, internal):
        self.e = ents
        self.c = cmp_name
        self.i = internal
        self.pos = None
        self.corrupt = False

    def first_ge(self, t, strict=False):
        for i, (k, _, _) in enumerate(self.e):
            r = kcmp(self.c, self.i, k, t)
            if r > 0 or (r == 0 and not strict):
                return i
        return None

    def last_le(self, t, strict=False):
        res = None
        for i, (k, _, _) in enumerate(self.e):
            r = kcmp(self.c, self.i, k, t)
            if r < 0 or (r == 0 and not strict):
                res = i
        return res

    def last_index(self):
        return len(self.e) - 1 if self.e else None

    def apply(self, op):
        """returns expected response fragment"""
        n = len(self.e)
        if op == 'F':
            self.pos = 0 if n else None
        elif op == 'L':
            self.pos = self.last_index()
        elif op in ('N', 'P'):
            if self.pos is None:
                return 'skip'
            if op == 'N':
                self.pos = self.pos + 1 if self.pos + 1 < n else None
            else:
                self.pos = self.pos - 1 if self.pos > 0 else None
        else:
            kind, t = op.split(':')
            t = proto.parse_bytes(t)
            if self.i and len(t) < 8:
                # ldb_blockiter_seek: "bad entry in block" for a short internal target; sticky status;
                # LE/LT then see an invalid iterator and go to the last entry
                self.corrupt = True
                self.pos = self.last_index() if kind in ('LE', 'LT') else None
            elif kind in ('S', 'GE'):
                self.pos = self.first_ge(t)
            elif kind == 'GT':
                self.pos = self.first_ge(t, strict=True)
            elif kind == 'LE':
                self.pos = self.last_le(t)
            else:
                self.pos = self.last_le(t, strict=True)
        st = 'corrupt' if self.corrupt else 'ok'
        if self.pos is None:
            return '0,-,-,' + st
        k, _, v = self.e[self.pos]
        return '1,%s,%s,%s' % (proto.show_bytes(k), proto.show_bytes(v), st)


def seek_target(rng, ents, internal, allow_short=True):
    """present / absent / before-first / after-last / empty / (for internal keys) too short"""
    k = rng.below(12)
    keys = [e[0] for e in ents]
    if internal:
        if allow_short and k == 0:
            return rng.bytes(rng.below(8))                   # < 8 bytes: corruption path
        if keys and k < 6:
            return rng.choice(keys)
        if keys and k < 9:
            base = rng.choice(keys)
            u = base[:-8]
            j = rng.below(4)
            if j == 0:
                return gens.ikey(u, rng.choice([0, (1 << 56) - 1, rng.below(1 << 20)]), rng.choice([0, 1]))
            if j == 1:
                return gens.ikey(u + bytes([rng.below(256)]), rng.below(1 << 20), 1)
            if j == 2 and u:
                return gens.ikey(u[:-1], rng.below(1 << 20), 1)
            return gens.ikey(u[:rng.below(len(u) + 1)] + rng.bytes(rng.below(2)), rng.below(300), rng.choice([0, 1]))
        if k == 9:
            return gens.ikey(b'', (1 << 56) - 1, 1)
        if k == 10:
            return gens.ikey(b'\xff' * 9, 0, 0)
        return gens.ikey(user_key(rng, rng.below(6)), rng.below(1 << 20), rng.choice([0, 1]))
    if keys and k < 5:
        return rng.choice(keys)
    if keys and k < 8:
        base = rng.choice(keys)
        j = rng.below(4)
        if j == 0:
            return base + bytes([rng.choice([0, 0xff, rng.below(256)])])
        if j == 1 and base:
            return base[:-1]
        if j == 2 and base:
            return base[:-1] + bytes([(base[-1] + rng.choice([1, 255])) % 256])
        return base[:rng.below(len(base) + 1)] + rng.bytes(rng.below(3))
    if k == 8:
        return b''
    if k == 9:
        return b'\xff' * rng.range(1, 12)
    if k == 10:
        return b'\x00' * rng.below(3)
    return user_key(rng, rng.below(6))


def random_walk(rng, ents, internal, nops, allow_short=True):
    """random walk biased towards direction changes"""
    ops = []
    moves = ['N', 'P']
    cur = rng.below(2)
    for _ in range(nops):
        k = rng.below(20)
        if k < 9:
            if rng.chance(2, 5):
                cur ^= 1                                  # change direction
            ops.append(moves[cur])
        elif k < 11:
            ops.append(rng.choice(['F', 'L']))
        else:
            kind = rng.choice(['S', 'S', 'S', 'GE', 'GT', 'LE', 'LT'])
            ops.append('%s:%s' % (kind, proto.arg(seek_target(rng, ents, internal, allow_short))))
    return ops


def expected(ents, cmp_name, internal, ops):
    cur = Cursor(ents, cmp_name, internal)
    return ';'.join(cur.apply(o) for o in ops) if ops else '.'


def _walk_oracle(what, want):
    def orc(resp, want=want):
        if resp == want:
            return None
        a, b = resp.split(';'), want.split(';')
        for i in range(max(len(a), len(b))):
            x = a[i] if i < len(a) else '<none>'
            y = b[i] if i < len(b) else '<none>'
            if x != y:
                return '%s: step %d gives %s, a cursor over the sorted entries gives %s' % (what, i, x[:120], y[:120])
        return '%s: response differs' % what
    return orc


# ------------------------------------------------------------------ valid stream
def gen_block_valid(rng, n):
    cases = []
    for _ in range(n):
        cmp_name = rng.choice(CMPS)
        internal = rng.chance(1, 2)
        interval = rng.choice([1, 1, 2, 2, 3, 4, 8, 15, 16, 16, 17, 32, rng.range(1, 32)])
        ents = gen_entries(rng, cmp_name, internal)
        plain = [(k, v) for k, _, v in ents]
        ea = entries_arg(ents)
        block, _, _ = py_block(interval, plain)
        shape = rng.below(10)
        big = len(ents) > 70
        if shape == 0:
            # builder alone: byte-identical with the reference builder
            want = proto.show_bytes(block)
            cases.append(Case('block-build', 'bbuild %d %s' % (interval, ea),
                              oracle=lambda r, want=want: None if r == want else 'built block %s, reference layout gives %s' % (r[:80], want[:80])))
            continue
        if shape == 1:
            ops = ['F'] + ['N'] * (len(ents) + 1)          # forward scan yields exactly the entries, then invalid
            what = 'forward scan'
        elif shape == 2:
            ops = ['L'] + ['P'] * (len(ents) + 1)          # backward scan yields them reversed
            what = 'backward scan'
        elif shape == 3:
            # every entry found by seek from a fresh position / from the previous one
            ops = []
            idx = list(range(len(ents)))
            if not big:
                idx = idx + idx[::-1]
            for i in idx[:120]:
                ops.append('S:%s' % proto.arg(ents[i][0]))
                if rng.chance(1, 4):
                    ops.append(rng.choice(['N', 'P', 'F', 'L']))
            what = 'seek to every key'
        elif shape == 4:
            ops = ['%s:%s' % (rng.choice(['GE', 'GT', 'LE', 'LT']), proto.arg(seek_target(rng, ents, internal, False)))
                   for _ in range(rng.range(1, 40))]
            what = 'seek helpers'
        else:
            ops = random_walk(rng, ents, internal, rng.range(1, 40 if big else 70))
            what = 'random walk'
        want = expected(ents, cmp_name, internal, ops)
        ii = 1 if internal else 0
        if shape == 5 and len(block) <= 1500:
            # explicit bytes (from the reference builder) through the iterator
            cases.append(Case('block-iter-bytes', 'biterx %s %d %s %s' % (cmp_name, ii, proto.arg(block), ','.join(ops) if ops else '.'),
                              oracle=_walk_oracle(what, want)))
        else:
            full = proto.show_bytes(block) + ' ' + want
            cases.append(Case('block-iter', 'bbi %d %s %d %s %s' % (interval, cmp_name, ii, ea, ','.join(ops) if ops else '.'),
                              oracle=_walk_oracle(what, full)))
    return cases


# ------------------------------------------------------------------ malformed stream
U32_BOUNDS = [0, 1, 2, 3, 4, 7, 8, 127, 128, 255, 256, 0xffff, 0x10000, 0x7fffffff, 0x80000000, 0xfffffffe, 0xffffffff]


def nonfault_oracle(internal):
    """besides "no fault" (judged by run_cases for every case): the status is sticky, and with an
    internal-key comparator a valid position never shows a key shorter than 8 bytes"""
    def orc(resp):
        f = resp.split(' ')[-1]
        seen_corrupt = False
        for i, st in enumerate(f.split(';')):
            if st in ('skip', '.'):
                continue
            p = st.split(',')
            if len(p) != 4:
                return 'malformed state %r' % st
            if seen_corrupt and p[3] != 'corrupt':
                return 'status went back to ok at step %d' % i
            if p[3] == 'corrupt':
                seen_corrupt = True
            if internal and p[0] == '1' and not p[1].startswith('#') and len(proto.parse_bytes(p[1])) < 8:
                return 'internal-key iterator is valid on a %d-byte key at step %d' % (len(proto.parse_bytes(p[1])), i)
        return None
    return orc


def put32(b, off, v):
    return b[:off] + (v & 0xFFFFFFFF).to_bytes(4, 'little') + b[off + 4:]


def mutate_block(rng, block, restarts, data_end, offs):
    """one structure-aware mutation of a valid block"""
    b = block
    k = rng.below(12)
    nr = len(restarts)
    if k == 0 and len(b) > 0:                            # truncation
        cut = rng.choice([rng.below(len(b)), max(0, len(b) - rng.range(1, 9)), data_end, max(0, data_end - 1), min(len(b), data_end + rng.below(8))])
        return b[:cut]
    if k == 1:                                          # restart count
        v = rng.choice(U32_BOUNDS + [nr + 1, max(0, nr - 1), (len(b) - 4) // 4, (len(b) - 4) // 4 + 1, (len(b) - 4) // 4 - 1 if len(b) >= 8 else 0, 0x3fffffff, 0x40000000])
        return put32(b, len(b) - 4, v)
    if k in (2, 3):                                     # restart array entry
        i = rng.below(nr)
        v = rng.choice(U32_BOUNDS + [data_end, data_end - 1 if data_end else 0, data_end + 1, data_end + 4, len(b), len(b) - 1, len(b) - 4,
                                     rng.choice(offs), rng.choice(offs) + 1, rng.choice(offs) + rng.below(4), rng.below(len(b) + 2)])
        return put32(b, data_end + 4 * i, v)
    if k == 4 and nr > 1:                               # permute / duplicate restart entries
        i, j = rng.below(nr), rng.below(nr)
        vi = b[data_end + 4 * i:data_end + 4 * i + 4]
        vj = b[data_end + 4 * j:data_end + 4 * j + 4]
        b = b[:data_end + 4 * i] + vj + b[data_end + 4 * i + 4:]
        if rng.chance(1, 2):
            b = b[:data_end + 4 * j] + vi + b[data_end + 4 * j + 4:]
        return b
    if k in (5, 6, 7) and len(offs) > 1:                # header varints of an entry
        e = rng.below(len(offs) - 1)
        o = offs[e] + rng.below(3)
        if o < len(b):
            j = rng.below(6)
            if j == 0:
                v = bytes([rng.choice([0, 1, 7, 8, 9, 126, 127])])
            elif j == 1:
                v = bytes([rng.choice([0x80, 0x81, 0xff, 0xfe])])          # turns the field into a multi-byte varint
            elif j == 2:
                v = gens.py_varint(rng.choice([128, 255, 16383, 16384, data_end, data_end - o if data_end > o else 0, len(b), 0xffffffff, 0x7fffffff]))
            elif j == 3:
                v = b'\xff\xff\xff\xff' + bytes([rng.choice([0x0f, 0x7f, 0x80, 0xff])])
            elif j == 4:
                rem = max(0, data_end - o - 3)
                v = bytes([min(127, max(0, rem + rng.range(-2, 2)))])
            else:
                v = bytes([0x80 | rng.below(128)] * rng.range(1, 5)) + bytes([rng.below(128)])
            if rng.chance(1, 2):
                return b[:o] + v + b[o + len(v):]                            # overwrite
            return b[:o] + v + b[o + 1:]                                    # replace one byte by the new varint (shifts the rest)
        return b
    if k == 8 and len(b) > 0:                           # random byte set / xor
        o = rng.below(len(b))
        return b[:o] + bytes([rng.choice([0, 1, 0x7f, 0x80, 0xff, rng.below(256)])]) + b[o + 1:]
    if k == 9:                                          # drop / insert bytes in the data area
        o = rng.below(data_end + 1)
        if rng.chance(1, 2) and o < data_end:
            return b[:o] + b[o + rng.range(1, 3):]
        return b[:o] + rng.bytes(rng.range(1, 3)) + b[o:]
    if k == 10:                                         # zero the data area but keep the trailer
        return bytes(data_end) + b[data_end:]
    # shared-prefix field of a restart entry made non-zero / of the first entry
    if len(offs) > 1:
        e = rng.choice([0] + [i for i, o in enumerate(offs[:-1]) if o in restarts])
        o = offs[e]
        return b[:o] + bytes([rng.choice([1, 2, 8, 127])]) + b[o + 1:]
    return b


def random_block(rng):
    k = rng.below(6)
    if k == 0:
        return rng.bytes(rng.below(40))
    if k == 1:                                          # random data + plausible trailer
        data = rng.bytes(rng.below(60))
        nr = rng.range(0, 5)
        rs = [rng.below(len(data) + 3) for _ in range(nr)]
        return data + b''.join(r.to_bytes(4, 'little') for r in rs) + rng.choice([nr, nr, nr + 1, max(nr - 1, 0)]).to_bytes(4, 'little')
    if k == 2:                                          # small-varint soup: plausible entry headers
        data = bytes([rng.choice([0, 0, 1, 2, 3, 8, 9, 0x7f, 0x80, 0xff]) for _ in range(rng.below(50))])
        nr = rng.range(1, 4)
        rs = sorted(rng.below(len(data) + 1) for _ in range(nr))
        return data + b''.join(r.to_bytes(4, 'little') for r in rs) + nr.to_bytes(4, 'little')
    if k == 3:
        return bytes(rng.below(24))
    if k == 4:
        return b'\xff' * rng.below(24)
    n = rng.below(16)
    return rng.bytes(n) + rng.choice(U32_BOUNDS).to_bytes(4, 'little')


def gen_block_malformed(rng, n):
    cases = []
    for _ in range(n):
        cmp_name = rng.choice(CMPS)
        internal = rng.chance(1, 2)
        ii = 1 if internal else 0
        k = rng.below(10)
        if k < 7:
            interval = rng.choice([1, 2, 3, 4, 16, rng.range(1, 32)])
            ents = gen_entries(rng, cmp_name, internal, size_class=rng.choice([0, 1, 1, 1, 2]))
            ents = [(kk, proto.arg(v[:20]), v[:20]) for kk, _, v in ents][:24]
            plain = [(kk, v) for kk, _, v in ents]
            block, restarts, data_end = py_block(interval, plain)
            offs = entry_offsets(interval, plain)
            b = block
            for _ in range(rng.choice([1, 1, 1, 2, 3])):
                # positions refer to the unmutated layout; after a length-changing mutation they are merely plausible
                b = mutate_block(rng, b, restarts, min(data_end, len(b)), [min(o, len(b)) for o in offs])
            ops = random_walk(rng, ents, internal, rng.range(1, 30))
            if rng.chance(1, 3):
                ops = rng.choice([['F'] + ['N'] * (len(ents) + 2), ['L'] + ['P'] * (len(ents) + 2)]) + ops
        elif k < 9:
            b = random_block(rng)
            ents = []
            ops = random_walk(rng, ents, internal, rng.range(1, 20))
        else:
            # builder misuse that NDEBUG lets through: unsorted / duplicate keys, interval 0
            ents = gen_entries(rng, cmp_name, internal, size_class=1)
            ents = [(kk, proto.arg(v[:20]), v[:20]) for kk, _, v in ents]
            j = rng.below(3)
            if j == 0 and len(ents) > 1:
                a, c = rng.below(len(ents)), rng.below(len(ents))
                ents[a], ents[c] = ents[c], ents[a]
            elif j == 1 and ents:
                ents.insert(rng.below(len(ents)), rng.choice(ents))
            interval = 0 if j == 2 else rng.range(1, 4)
            ops = random_walk(rng, ents, internal, rng.range(1, 30))
            cases.append(Case('block-misuse', 'bbi %d %s %d %s %s' % (interval, cmp_name, ii, entries_arg(ents), ','.join(ops)),
                              oracle=nonfault_oracle(internal)))
            continue
        cases.append(Case('block-malformed', 'biterx %s %d %s %s' % (cmp_name, ii, proto.arg(b), ','.join(ops)),
                          oracle=nonfault_oracle(internal)))
        if rng.chance(1, 4):
            def init_oracle(resp, b=b):
                ok = len(b) >= 4 and int.from_bytes(b[-4:], 'little') <= (len(b) - 4) // 4
                want = 'ok %d' % int.from_bytes(b[-4:], 'little') if ok else 'corrupt'
                return None if resp == want else 'ldb_block_init gives %s, the size rule gives %s' % (resp, want)
            cases.append(Case('block-init', 'binit %s' % proto.arg(b), oracle=init_oracle))
    return cases


def gen_block_mut_built(rng, n):
    """mutations applied by the harness/driver to a block they built themselves (covers large blocks)"""
    cases = []
    for _ in range(n):
        cmp_name = rng.choice(CMPS)
        internal = rng.chance(1, 2)
        ii = 1 if internal else 0
        interval = rng.choice([1, 2, 16, rng.range(1, 32)])
        ents = gen_entries(rng, cmp_name, internal, size_class=rng.choice([1, 2, 2, 3]))
        plain = [(k, v) for k, _, v in ents]
        block, restarts, data_end = py_block(interval, plain)
        muts = []
        for _ in range(rng.range(1, 3)):
            j = rng.below(4)
            if j == 0:
                muts.append('t:%d' % rng.choice([rng.below(len(block) + 1), data_end, len(block) - 1, len(block) - 4]))
            elif j == 1:
                muts.append('s:%d:%d' % (rng.below(len(block)), rng.choice([0, 1, 0x7f, 0x80, 0xff, rng.below(256)])))
            elif j == 2:
                muts.append('e:%d:%d' % (rng.below(min(len(block), 4 * len(restarts) + 4)), rng.choice([0, 1, 0x7f, 0x80, 0xff, rng.below(256)])))
            else:
                o = rng.choice(restarts)
                muts.append('s:%d:%d' % (o + rng.below(3), rng.choice([0, 1, 0x7f, 0x80, 0xff])))
        ops = random_walk(rng, ents, internal, rng.range(1, 25))
        cases.append(Case('block-malformed-built', 'bbim %d %s %d %s %s %s' % (interval, cmp_name, ii, entries_arg(ents), ','.join(muts), ','.join(ops)),
                          oracle=nonfault_oracle(internal)))
    return cases


def gen_block_crafted(rng, n):
    """hand-assembled blocks: every header field chosen freely around the guards of the iterator
    (shared vs. previous key length, key length around 8 for internal keys, restart entries with
    shared != 0 or pointing anywhere), trailer consistent so that the iterator gets to the entries"""
    cases = []
    for _ in range(n):
        cmp_name = rng.choice(CMPS)
        internal = rng.chance(2, 3)
        ii = 1 if internal else 0
        ne = rng.range(1, 10)
        buf = bytearray()
        offs, keys = [], []
        prev = b''
        for i in range(ne):
            offs.append(len(buf))
            j = rng.below(10)
            if i == 0 or j < 3:
                shared = 0
            elif j < 8:
                shared = rng.below(len(prev) + 1)
            elif j == 8:
                shared = len(prev) + rng.choice([0, 1, 2])
            else:
                shared = rng.choice([1, 7, 8, 9, 127, 128])
            if internal:
                total = rng.choice([6, 7, 7, 8, 8, 8, 9, 10, 12])
                ns = max(0, total - min(shared, len(prev)))
                if rng.chance(1, 8):
                    ns = rng.below(10)
            else:
                ns = rng.below(6)
            delta = bytes([rng.choice([0, 1, 0x61, 0x62, 0xff]) for _ in range(ns)])
            vl = rng.below(4)
            val = rng.bytes(vl)
            hs = gens.py_varint(shared)
            hn = gens.py_varint(ns + (rng.choice([0, 0, 0, 0, 0, 1, 2, 100]) if rng.chance(1, 10) else 0))
            hv = gens.py_varint(vl + (rng.choice([0, 0, 0, 1, 3, 100, 1 << 31, (1 << 32) - 1]) if rng.chance(1, 10) else 0))
            if rng.chance(1, 12):               # non-canonical (padded) varint forces the slow path
                hs = bytes([hs[0] | 0x80]) + b'\x00' if len(hs) == 1 else hs
            buf += hs + hn + hv + delta + val
            key = prev[:shared] + delta
            keys.append(key)
            prev = key
        data_end = len(buf)
        k = rng.below(6)
        if k == 0:
            rs = [0]
        elif k == 1:
            rs = list(offs)
        elif k == 2:
            rs = sorted(set([0] + [rng.choice(offs) for _ in range(rng.range(1, 4))]))
        elif k == 3:
            rs = [rng.choice(offs) for _ in range(rng.range(1, 5))]                 # unsorted, duplicates
        elif k == 4:
            rs = sorted(set([0] + [rng.choice(offs) for _ in range(rng.range(1, 4))])) + [rng.choice([data_end, data_end - 1, data_end + 1, data_end - 2])]
        else:
            rs = [min(o + rng.choice([0, 0, 0, 1]), data_end) for o in offs[::rng.range(1, 3)]]
        b = bytes(buf) + b''.join((r & 0xFFFFFFFF).to_bytes(4, 'little') for r in rs) + len(rs).to_bytes(4, 'little')
        ents = [(kk, '-', b'') for kk in keys if (not internal or len(kk) >= 8)]
        ops = []
        for _ in range(rng.range(2, 30)):
            j = rng.below(10)
            if j < 4:
                ops.append(rng.choice(['N', 'P']))
            elif j < 6:
                ops.append(rng.choice(['F', 'L']))
            else:
                kind = rng.choice(['S', 'S', 'S', 'GE', 'GT', 'LE', 'LT'])
                if ents and rng.chance(2, 3):
                    t = rng.choice(ents)[0]
                    if rng.chance(1, 3):
                        t = t[:-1] + bytes([(t[-1] + rng.choice([1, 255])) % 256]) if t else t
                else:
                    t = seek_target(rng, ents, internal)
                ops.append('%s:%s' % (kind, proto.arg(t)))
        cases.append(Case('block-crafted', 'biterx %s %d %s %s' % (cmp_name, ii, proto.arg(b), ','.join(ops)),
                          oracle=nonfault_oracle(internal)))
    return cases


def gen_block(rng, n):
    """the slice's whole stream: ~50% valid, ~25% mutated valid / random bytes, ~15% hand-assembled, ~10% mutated built blocks"""
    nv = n * 50 // 100
    nm = n * 25 // 100
    nc = n * 15 // 100
    return (gen_block_valid(rng.fork('valid'), nv) + gen_block_malformed(rng.fork('malformed'), nm)
            + gen_block_crafted(rng.fork('crafted'), nc) + gen_block_mut_built(rng.fork('mut'), n - nv - nm - nc))
