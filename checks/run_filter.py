#!/usr/bin/env python3
"""Stand-alone differential run of the filter slice (hash / bloom / filter block / handle / footer):
    python3 checks/run_filter.py [--scale N] seed [seed ...]
Builds the sanitizer harness against /repo's current tree, runs every generated request through the C
harness and lean/.lake/build/bin/modeld (run `lake build` in lean/ first), diffs the responses and
applies the property oracles of checks/gens_filter.py.  Exit status 1 on any disagreement / oracle failure."""
import collections, os, sys
ROOT = os.path.dirname(os.path.dirname(os.path.abspath(__file__)))
sys.path.insert(0, os.path.join(ROOT, 'tools'))
sys.path.insert(0, os.path.join(ROOT, 'checks'))
import vlib, gens_filter
from vlib import Rng, Check
from common import run_cases


def main(argv):
    scale = 1
    if argv[:1] == ['--scale']:
        scale = int(argv[1])
        argv = argv[2:]
    seeds = [int(x) for x in argv] or [1]
    unit = vlib.build_harness('unit', 'asan', exclude=['util/crc32c.c'])
    rc = 0
    for sd in seeds:
        cases = gens_filter.gen_filter_all(Rng(sd), scale)
        chk = Check('FILTER', 'quick')
        c_out, m_out = run_cases(chk, cases, unit)
        bad = [o for o in chk.obligations if not o[1]]
        for o in bad:
            print('DISAGREE', o[0], o[2][:600])
        for v in chk.violations[:8]:
            print('ORACLE', v[0][:400], v[1].get('request', '')[:300])
        faults = sum(1 for c in c_out if c is not None and c.startswith('fault:'))
        with_oracle = sum(1 for c in cases if c.oracle is not None)
        suites = collections.Counter(c.suite for c in cases)
        print('seed %d: cases=%d (with property oracle: %d) suites=%d disagreements=%d oracle_failures=%d faults=%d bad-op=%d' % (
            sd, len(cases), with_oracle, len(suites), sum(int(o[2].split(';')[1].split()[0]) for o in bad if ';' in o[2]),
            len(chk.violations), faults, sum(1 for c in c_out if c == 'bad-op')))
        if bad or chk.violations:
            rc = 1
    return rc


if __name__ == '__main__':
    sys.exit(main(sys.argv[1:]))
