"""fault-injection histories for C12"""
import proto
from wl_gen import Hist, opt_sets


def base_history(rng, dbdir, opts):
    """returns (prefix lines before arming, body lines during the fault, tail lines after clearing)"""
    h = Hist(rng, dbdir, opts, rng.choice([5, 12]))
    pre, body, tail = [], [], []
    h.lines = pre
    h.open()
    h.write_some(rng.range(1, 6))
    if rng.chance(1, 2):
        h.emit('flushmem')
    h.lines = body
    for _ in range(rng.range(4, 14)):
        k = rng.below(13)
        if k == 12:
            h.reopen()          # recovery and the MANIFEST roll-over of ldb_open under the fault; the open may fail
        elif k < 7:
            h.write_some(rng.range(1, 3))
        elif k < 8:
            h.emit('flushmem')
        elif k < 9:
            h.emit('compact %d * *' % rng.below(3))
        elif k < 11:
            h.read_all(with_snaps=False, sample=4)
        else:
            h.iter_walk(5)
    h.lines = tail
    h.emit('ensureopen %s %s' % (h.dir, h.opts))
    h.write_some(rng.range(1, 4))
    h.read_all(with_snaps=False)
    return h, pre, body, tail


def script(pre, body, tail, k, errno, persistent, partial, kinds, imgdir):
    lines = ['journal on', 'faultmode'] + pre
    lines.append('fault %d %d %d %d %s' % (k, errno, persistent, partial, kinds))
    lines += body
    lines.append('faultstat')
    lines.append('fault -1')
    lines += tail
    lines.append('crashat -1 0 %s' % imgdir)
    lines.append('close')
    lines.append('crashat -1 0 %s' % imgdir)
    return lines
