"""Whole-system (workload) parts of the checks; filled in as the wl harness grows."""


def c17_part(chk, tier, rng):
    pass


def c04_part(chk, tier, rng):
    pass


def c20_part(chk, tier, rng):
    pass


def c18_part(chk, tier, rng):
    pass
