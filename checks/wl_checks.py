"""Whole-system (workload) parts of the checks; filled in as the wl harness grows."""


def c17_part(chk, tier, rng):
    """MANIFEST streams of real histories decoded by the Lean log reader + edit decoder (journal abstraction); the layout the
    model predicts must equal what the implementation reports after every edit and every reopen (MANIFEST replay);
    CURRENT switches: every crash image around MANIFEST roll-overs must open"""
    import wl_run, crash_gen
    n, nops = (8, 40) if tier == 'quick' else (200, 100)
    chk.rules.append('whole-database histories with the I/O journal on: every MANIFEST record is decoded by the Lean decoders, each applied edit is replayed on the model and the layout '
                     'compared with the implementation after every edit and every reopen; crash images at every journal prefix of reopen-heavy histories must open (CURRENT atomic)')
    # the Disk monitor decodes every MANIFEST byte written with the model's log reader and edit decoder (the independent
    # decoder of the statement) and checks that CURRENT only ever names a complete, synced MANIFEST: its verdict is the property
    wl_run.run_histories(chk, n, nops, {'conforms', 'layout', 'recover', 'step'}, 'manifest-replay', journal=True, oracle_tags=('conforms',))
    fam = lambda r, db, img, nops_: crash_gen.history(r, db, img, nops_, '014', False, 30 if tier == 'quick' else 100)
    wl_run.run_histories(chk, 4 if tier == 'quick' else 24, 20 if tier == 'quick' else 25, {'crashopen', 'conforms'}, 'current-switch-crashes', family=fam)
    wl_run.run_histories(chk, 2 if tier == 'quick' else 16, 0, {'conforms', 'layout', 'recover', 'step', 'get'}, 'manifest-growth', family='manifest-growth', journal=True, oracle_tags=('conforms',))


def c04_part(chk, tier, rng):
    """crash atomicity: the recovered contents must equal the effect of a set of WHOLE batches (per-log prefixes)"""
    import wl_run, crash_gen
    chk.rules.append('crash images (kill, torn-tail and zero-block variants) of histories with multi-operation batches spanning several 32 KiB log blocks: the recovered contents must be those of a '
                     'set of whole batches (the crash oracle builds its reference from whole batches only)')
    fam = lambda r, db, img, nops_: crash_gen.history(r, db, img, nops_, '035', False, 30 if tier == 'quick' else 100)
    wl_run.run_histories(chk, 6 if tier == 'quick' else 40, 22 if tier == 'quick' else 30, {'crashview', 'crashinvented', 'crashopen', 'batchatomic', 'crashsync'}, 'batch-crash-atomicity', family=fam)


def c20_part(chk, tier, rng):
    import wl_run
    n, nops = (12, 30) if tier == 'quick' else (300, 80)
    chk.rules.append('lifecycle histories: open/close, second open in the same process, lock probes from another process, backups between arbitrary operations and re-checked after '
                     'later source writes, copy, wrong-comparator open (must be refused without touching database files: journal checked), destroy with foreign files present; '
                     'non-trivial = history with >= 1 flush and >= 1 compaction')
    wl_run.run_histories(chk, n, nops, {'lifecycle', 'get', 'recover', 'files'}, 'lifecycle-histories', family='lifecycle')


def c18_part(chk, tier, rng):
    """C18 at database level: forged MANIFESTs (harness/forge.c, checks/gens_forge.py) opened, read, scanned both ways, compacted,
    written and reopened by the real code in a child process under ASan+UBSan with a 15 s alarm and an RSS limit: every call
    has to return a status.  (Damaged copies of real files are C11's part; these descriptors are well-framed and wrong.)"""
    import concurrent.futures as cf, subprocess, vlib, gens_forge
    fbin = vlib.build_harness('forge', 'asan', exclude=[])
    n = 36 if tier == 'quick' else 1500
    reqs = gens_forge.gen_forge(rng.fork('forge'), n)
    env = vlib.asan_env()
    env['ASAN_OPTIONS'] = env.get('ASAN_OPTIONS', '') + ':hard_rss_limit_mb=3000'
    nchunk = max(1, min(vlib.NPROC, len(reqs) // 3))
    chunks = [reqs[i::nchunk] for i in range(nchunk)]

    def run(chunk):
        try:
            p = subprocess.run([fbin], input=''.join(r + '\n' for r in chunk), stdout=subprocess.PIPE, stderr=subprocess.PIPE, text=True, env=env, timeout=60 + 20 * len(chunk))
            return chunk, p.stdout.split('\n'), p.stderr
        except subprocess.TimeoutExpired:
            return chunk, [], 'TIMEOUT'
    opened = refused = bad = 0
    with cf.ThreadPoolExecutor(nchunk) as ex:
        for chunk, out, err in ex.map(run, chunks):
            for i, r in enumerate(chunk):
                o = out[i] if i < len(out) else '(no answer: the harness itself died) ' + err[-300:]
                ok = o.endswith('-> exit=0')
                chk.note_case(('forge', o.split(' -> ')[0][:60]), ok and o.startswith('open=0'))
                if o.startswith('open=0'):
                    opened += 1
                else:
                    refused += 1
                if not ok:
                    bad += 1
                    if bad <= 3:
                        first = next((l.strip() for l in err.split('\n') if 'ERROR' in l or 'runtime error' in l), '')
                        chk.violation('forged MANIFEST: a call did not return a status (%s) %s' % (o[-120:], first[:200]), {'forge': r, 'answer': o, 'stderr_tail': err[-1500:],
                                      'replay_cmd': 'echo "<forge line>" | <forge harness built by ./check>'})
    chk.rules.append('database level: %d forged MANIFESTs (well-framed; bounds inverted / equal / widened / narrowed, levels shuffled, one table named twice, missing tables, '
                     'wrong sizes, odd sequence numbers and value types) over three real tables; open, 6 gets, scans both ways, manual compaction, put, the same again, reopen -- in a '
                     'child process with a 15 s alarm and an RSS limit; %d opened, %d refused at open' % (len(reqs), opened, refused))
    chk.oblige('forged-manifests: every call returned a status', bad == 0, '%d requests, %d did not' % (len(reqs), bad))
    chk.extra['forged_manifests'] = {'requests': len(reqs), 'opened': opened, 'refused_at_open': refused, 'not_returning': bad}
