"""C12 — I/O failures are reported and never cost acknowledged data"""
import crashcheck

PID = 'C12'
THEOREMS = [
    'Lcdb.C03.kill_durable',
    'Lcdb.C03.kill_recovers',
    'Lcdb.C05.recover_sublist',
    'Lcdb.C15.read_truncated',
    'Lcdb.C12.faults_lose_nothing_of_conforms',
]
IMPORTS = ['LcdbModel.Props.C12']
TARGETS = ['LcdbModel.Props.C12']


def run(tier):
    return crashcheck.run_faults(PID, tier, THEOREMS, IMPORTS, TARGETS)


def replay(path):
    return crashcheck.replay(PID, path)
